#!/bin/sh
# Build the fact extractor offline and pre-warm the dependency check of /repo (so the first check
# only has to analyse the workspace members).  Everything lives under /verif/.cache.
set -e
cd "$(dirname "$0")"
export CARGO_NET_OFFLINE=true
python3 -c "
import sys; sys.path.insert(0,'.')
from sgcheck import extract
extract.build_driver()
print(extract.extract())
"
