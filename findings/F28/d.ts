let a = 1
