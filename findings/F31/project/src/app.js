function counter() {
  // ast-grep-ignore: prefer-const
  var total = 0
  total += 1
  return total
}

var limit = 10
