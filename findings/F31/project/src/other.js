export function noop() {
  return undefined
}
