#!/bin/sh
# usage: repro.sh <ast-grep binary>   — prints the distinct orders in which the rules of one file are listed by `scan --json=stream` over 12 runs
cd "$(dirname "$0")/project" || exit 2
for i in 1 2 3 4 5 6 7 8 9 10 11 12; do
  timeout 20 "$1" scan --json=stream 2>/dev/null | python3 -c "
import sys, json
print(','.join(json.loads(l)['ruleId'] for l in sys.stdin))"
done | sort | uniq -c
