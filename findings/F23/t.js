// ast-grep-ignore
bar(1)
foo(2)
