x = foo(1)
