a = [f(x, 2), f(y, 1), y]
b = [g(x, 2), f(y, 1), y]
