foo(a, b)
