a + b
