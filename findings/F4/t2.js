b(a)
