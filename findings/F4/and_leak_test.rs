use ast_grep_core::matcher::{KindMatcher, Matcher};
use ast_grep_core::meta_var::MetaVarEnv;
use ast_grep_core::ops::Op;
use ast_grep_core::{Language, Pattern};
use ast_grep_language::SupportLang;
use std::borrow::Cow;

#[test]
fn and_must_not_leak() {
  let lang = SupportLang::JavaScript;
  let grep = lang.ast_grep("foo(1)");
  let node = grep.root().find("foo($A)").expect("call").get_node().clone();
  // pattern binds $A, then the kind test fails: And as a whole fails
  let and = Op::every(Pattern::new("foo($A)", lang)).and(KindMatcher::new("number", lang));
  let mut env = Cow::Owned(MetaVarEnv::new());
  let ret = and.match_node_with_env(node, &mut env);
  assert!(ret.is_none());
  let bound: Vec<_> = env.get_matched_variables().collect();
  assert!(bound.is_empty(), "failed And left bindings behind: {} var(s)", bound.len());
}
