//! Reproduction: a `fix` in object form with `expandEnd` makes the library/CLI
//! (`NodeMatch::make_edit`) replace an expanded byte range, while the language
//! server's quick-fix and fix-all code actions replace only the matched node's range.

use ast_grep_config::{from_yaml_string, GlobalRules, RuleCollection, RuleConfig};
use ast_grep_core::language::Language;
use ast_grep_language::SupportLang;
use ast_grep_lsp::*;
use serde_json::{json, Value};
use tokio::io::{duplex, AsyncReadExt, AsyncWriteExt, DuplexStream};

use std::path::Path;

const RULE: &str = r"
id: remove-arg
message: remove arg
severity: warning
language: TypeScript
rule:
  pattern: a
  inside:
    kind: arguments
fix:
  template: ''
  expandEnd: { regex: ',' }
";

const SRC: &str = "foo(a, b)\n";
const URI: &str = "file:///tmp/fix-range-repro/test.ts";

fn load_rule() -> RuleConfig<SupportLang> {
  from_yaml_string(RULE, &GlobalRules::default())
    .unwrap()
    .pop()
    .unwrap()
}

/// (position, deleted_length, inserted_text) computed the way `sg scan` does.
fn library_edit() -> (usize, usize, String) {
  let rule = load_rule();
  let grep = rule.language.ast_grep(SRC);
  let node_match = grep
    .root()
    .find(&rule.matcher)
    .expect("rule should match");
  let fixer = rule.matcher.fixer.as_ref().expect("rule has fixer");
  let edit = node_match.make_edit(&rule.matcher, fixer);
  (
    edit.position,
    edit.deleted_length,
    String::from_utf8(edit.inserted_text).unwrap(),
  )
}

fn apply(src: &str, start: usize, end: usize, new_text: &str) -> String {
  format!("{}{}{}", &src[..start], new_text, &src[end..])
}

// SRC is ASCII, so an LSP utf-16 `character` equals a byte column.
fn offset(src: &str, pos: &Value) -> usize {
  let line = pos["line"].as_u64().unwrap() as usize;
  let character = pos["character"].as_u64().unwrap() as usize;
  let line_start: usize = src.split_inclusive('\n').take(line).map(str::len).sum();
  line_start + character
}

fn apply_text_edit(src: &str, text_edit: &Value) -> String {
  let start = offset(src, &text_edit["range"]["start"]);
  let end = offset(src, &text_edit["range"]["end"]);
  apply(src, start, end, text_edit["newText"].as_str().unwrap())
}

struct LspClient {
  req: DuplexStream,
  resp: DuplexStream,
  buf: Vec<u8>,
}

impl LspClient {
  fn new() -> Self {
    let base = Path::new("./").to_path_buf();
    let rc: RuleCollection<SupportLang> = RuleCollection::try_new(vec![load_rule()]).unwrap();
    let rc_result: std::result::Result<_, String> = Ok(rc);
    let (service, socket) =
      LspService::build(|client| Backend::new(client, base, rc_result)).finish();
    let (req_client, req_server) = duplex(1024);
    let (resp_server, resp_client) = duplex(1024);
    tokio::spawn(Server::new(req_server, resp_server, socket).serve(service));
    Self {
      req: req_client,
      resp: resp_client,
      buf: vec![],
    }
  }

  async fn send(&mut self, msg: Value) {
    let msg = msg.to_string();
    let framed = format!("Content-Length: {}\r\n\r\n{}", msg.len(), msg);
    self.req.write_all(framed.as_bytes()).await.unwrap();
  }

  fn try_parse(&mut self) -> Option<Value> {
    let text = std::str::from_utf8(&self.buf).ok()?;
    let header_end = text.find("\r\n\r\n")?;
    let len: usize = text[..header_end]
      .lines()
      .find_map(|l| l.strip_prefix("Content-Length: "))?
      .trim()
      .parse()
      .ok()?;
    let body_start = header_end + 4;
    if self.buf.len() < body_start + len {
      return None;
    }
    let value = serde_json::from_slice(&self.buf[body_start..body_start + len]).unwrap();
    self.buf.drain(..body_start + len);
    Some(value)
  }

  /// Read one message from the server. Server->client requests are answered with `null`.
  async fn recv(&mut self) -> Value {
    loop {
      if let Some(v) = self.try_parse() {
        if v.get("method").is_some() && v.get("id").is_some() {
          // e.g. workspace/workspaceFolders issued from did_open
          let id = v["id"].clone();
          self
            .send(json!({"jsonrpc": "2.0", "id": id, "result": null}))
            .await;
        }
        return v;
      }
      let mut chunk = [0u8; 1024];
      let n = self.resp.read(&mut chunk).await.unwrap();
      assert!(n > 0, "server closed the connection");
      self.buf.extend_from_slice(&chunk[..n]);
    }
  }

  async fn recv_until(&mut self, pred: impl Fn(&Value) -> bool) -> Value {
    loop {
      let v = self.recv().await;
      if pred(&v) {
        return v;
      }
    }
  }

  async fn request(&mut self, id: u64, method: &str, params: Value) -> Value {
    self
      .send(json!({"jsonrpc": "2.0", "id": id, "method": method, "params": params}))
      .await;
    self
      .recv_until(|v| v.get("method").is_none() && v["id"] == json!(id))
      .await
  }
}

/// Returns (diagnostic, quick-fix TextEdit, fix-all TextEdit) as proposed by the server.
async fn lsp_edits() -> (Value, Value, Value) {
  let mut client = LspClient::new();
  let init = client
    .request(1, "initialize", json!({"capabilities": {}}))
    .await;
  assert!(init["result"]["capabilities"].is_object(), "{init}");
  client
    .send(json!({"jsonrpc": "2.0", "method": "initialized", "params": {}}))
    .await;
  client
    .send(json!({
      "jsonrpc": "2.0",
      "method": "textDocument/didOpen",
      "params": {
        "textDocument": {"uri": URI, "languageId": "typescript", "version": 1, "text": SRC}
      }
    }))
    .await;
  let published = client
    .recv_until(|v| v["method"] == "textDocument/publishDiagnostics")
    .await;
  let diagnostics = published["params"]["diagnostics"].as_array().unwrap();
  assert_eq!(diagnostics.len(), 1, "{published}");
  let diagnostic = diagnostics[0].clone();
  assert_eq!(diagnostic["code"], "remove-arg");

  // quick fix: hand the published diagnostic back, like an editor does
  let quickfix = client
    .request(
      2,
      "textDocument/codeAction",
      json!({
        "textDocument": {"uri": URI},
        "range": diagnostic["range"],
        "context": {"diagnostics": [diagnostic]}
      }),
    )
    .await;
  let quickfix_edit = quickfix["result"][0]["edit"]["changes"][URI][0].clone();
  assert!(quickfix_edit.is_object(), "no quickfix edit in {quickfix}");

  // fix all
  let fix_all = client
    .request(
      3,
      "textDocument/codeAction",
      json!({
        "textDocument": {"uri": URI},
        "range": diagnostic["range"],
        "context": {"diagnostics": [], "only": ["source.fixAll"]}
      }),
    )
    .await;
  let fix_all_edit = fix_all["result"][0]["edit"]["changes"][URI][0].clone();
  assert!(fix_all_edit.is_object(), "no fixAll edit in {fix_all}");

  (diagnostic, quickfix_edit, fix_all_edit)
}

#[test]
fn lsp_fix_should_agree_with_library_fix_when_fixer_expands_range() {
  let (pos, del, ins) = library_edit();
  let lib_text = apply(SRC, pos, pos + del, &ins);
  println!("source                 : {SRC:?}");
  println!(
    "library make_edit      : bytes {}..{} -> {:?}   result {:?}",
    pos,
    pos + del,
    ins,
    lib_text
  );

  let (diagnostic, quickfix, fix_all) = tokio::runtime::Runtime::new()
    .unwrap()
    .block_on(lsp_edits());
  let quickfix_text = apply_text_edit(SRC, &quickfix);
  let fix_all_text = apply_text_edit(SRC, &fix_all);
  println!("lsp diagnostic         : {diagnostic}");
  println!("lsp quickfix TextEdit  : {quickfix}   result {quickfix_text:?}");
  println!("lsp fixAll TextEdit    : {fix_all}   result {fix_all_text:?}");

  assert_eq!(
    quickfix_text, lib_text,
    "LSP quickfix result {quickfix_text:?} (edit {quickfix}) differs from library result {lib_text:?} (bytes {}..{} -> {ins:?})",
    pos, pos + del
  );
  assert_eq!(
    fix_all_text, lib_text,
    "LSP fixAll result {fix_all_text:?} (edit {fix_all}) differs from library result {lib_text:?} (bytes {}..{} -> {ins:?})",
    pos, pos + del
  );
}
