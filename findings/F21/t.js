let x = 1
