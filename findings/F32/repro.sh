#!/bin/sh
# usage: repro.sh <ast-grep binary>
# The same text is searched twice with the same pattern: once as a file (goes through the literal prefilter of
# utils::filter_file_pattern) and once on stdin (no prefilter).  PHP keywords are case-insensitive: `ECHO 1;` parses to the same
# `echo_statement` with the same anonymous token kind `echo`, and match_terminal compares anonymous tokens by kind only — so the
# pattern `echo $A` matches.  The prefilter, however, requires the file to contain the pattern's longest token text, "echo".
cd "$(dirname "$0")" || exit 2
echo "--- as a file (prefiltered):"
timeout 20 "$1" run -p 'echo $A' -l php upper.php
echo "--- on stdin (not prefiltered):"
timeout 20 "$1" run -p 'echo $A' -l php --stdin < upper.php
