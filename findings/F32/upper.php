<?php
ECHO 1;
