foo(1)
