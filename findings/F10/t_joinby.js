foo(a, 2)
