foo(1)
