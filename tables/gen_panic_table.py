#!/usr/bin/env python3
"""One-off helper used while REVIEWING the panic sites: assigns a verdict to every site currently
enumerated by C11-R1 from the review rules below and freezes them as explicit rows (one per exact site
key) in panic_sites.json.  It is not run by any check; the checks only read panic_sites.json.  A site
that appears later and is not in the file is a violation until someone reviews it and re-runs this."""
import json
import os
import re
import sys

HERE = os.path.dirname(os.path.abspath(__file__))
sys.path.insert(0, os.path.dirname(HERE))
from sgcheck import extract, facts  # noqa: E402
from sgcheck.rules import c11  # noqa: E402

TS = "byte offsets come from tree-sitter nodes of this very source, which lie inside it on char boundaries (trusted base: tree-sitter)"
CNT = "counter bounded by the number of nodes/bytes/lines of one in-memory document (< usize::MAX)"

# (function regex, kind regex, desc regex, verdict, why[, extra])
RULES = [
    # ---------------- findings: none open (F2, F8, F9, F10, F16 were fixed in /repo; see known_findings.json) ----
    # ---------------- guarded SAFE -------------------------------------------------------------
    (r"deserialize_env::DeserializeEnv::<L>::(with_utils|parse_global_utils)$", r"expect", None, "SAFE", "ids iterate the order returned by TopologicalSort::get_order over the same map", {"guard": "ids_from_get_order"}),
    (r"transformation::Replace::<.*>::compute$", r"call:core::result::Result::<T, E>::unwrap", None, "SAFE", "the regex was compiled successfully by Transformation::parse when the rule was loaded (error returned there)", {"guard": "regex_validated_at_load"}),
    (r"transform::rewrite::Rewrite::<.*>::compute(_in)?$", r"index", r"get_nodes_from_env", "SAFE", "after the `nodes.is_empty()` early return", {"guard": "multi_nodes_nonempty"}),
    (r"transform::rewrite::Rewrite::<.*>::compute(_in)?$", r"assert:overflow_Sub", None, "SAFE", "edits before `start` are dropped by skip_while(position < start); the remaining positions are >= start", {"guard": "rewrite_edits_filtered"}),
    (r"transform::rewrite::(Rewrite::<.*>::compute(_in)?|make_edit)$", r"assert:overflow_Add", None, "SAFE", "sums of offsets inside one source text"),
    (r"transform::rewrite::make_edit$", r"index", None, "SAFE", "pos comes from checked_sub and pos + deleted_length <= len is tested before slicing; start <= pos by the overlap test", {"guard": "rewrite_edits_filtered"}),
    (r"nth_child::parse_an_b$", r"assert:overflow_Mul", r"-1_i32|1_i32", "SAFE", "sign is ±1 and 0 <= num <= i32::MAX (checked_mul/checked_add reject larger numbers)"),
    (r"nth_child::FunctionalPosition::is_matched$", r"assert:(overflow_(Add|Sub)|div_zero|rem_zero|overflow_Div|overflow_Rem)", None, "SAFE", "evaluated in i64 over values that fit in i33; the divisor is tested != 0 on this branch"),
    (r"transform::rewrite::replace_one$", r"expect", None, "SAFE", "register_rewriters rejects a rewriter without fix before insert_rewriter", {"guard": "rewriter_has_fix"}),
    (r"transform::Transform::deserialize::\{closure#0\}$", r"index", None, "SAFE", "keys come from get_transform_order(map) over the same map", {"guard": "transform_keys_from_order"}),
    (r"combined::CombinedScan::<'r, L>::(scan|get_rule)$", r"index", None, "SAFE", "indices are the enumerate() indices of the rule vector stored in the same CombinedScan (C01-R6 index consistency)", {"guard": "combined_scan_index"}),
    (r"matcher::pattern::Pattern::<L>::new$", r"unwrap", None, "SAFE", "convenience constructor for literal patterns; the YAML/CLI paths use try_new (no caller in config/cli)", {"guard": "pattern_new_callers"}),
    (r"node::Root::<D>::new$", r"expect", None, "ASSUMED", "tree-sitter returns a tree for every input text when no timeout/cancellation is set; grammar ABI is checked when a language is registered"),
    # ---------------- SAFE by local argument ---------------------------------------------------
    (r"combined::CombinedScan::<'r, L>::new$", r"index_mut", None, "SAFE", "preceded by `while mapping.len() <= kind { push }`"),
    (r"nth_child::parse_an_b(::\{closure#0\})?$", r"assert:overflow_Sub", r"const 48_u8", "SAFE", "`c as u8 - b'0'` inside the arm matching '0'..='9'"),
    (r"nth_child::parse_an_b$", r"assert:overflow_Mul", r"-1_i32", "SAFE", "sign is ±1 and num >= 0: |sign * num| <= i32::MAX"),
    (r"nth_child::FunctionalPosition::is_matched$", r"assert:overflow_Add", None, "SAFE", CNT),
    (r"referent_rule::(Registration::<.*>|RuleRegistration::<L>)::(insert|insert_local)$", r"unwrap", None, "SAFE", "map.get(id) immediately after map.insert(id, ..)"),
    (r"referent_rule::RegistrationRef::<L>::get_(local|global)$", r"expect", None, "SAFE", "the Arc is owned by the RuleRegistration stored in the RuleCore that contains the referencing rule (field `registration`), and by GlobalRules kept by the caller for the scan"),
    (r"rule::deserialize_rule$", r"expect", None, "SAFE", "dominated by the `rules.is_empty() -> Err(MissingPositiveMatcher)` test", {"guard": "deserialize_rule_nonempty"}),
    (r"rule_config::RuleConfig::<L>::get_message$", r"expect", r"with_transform", "SAFE", "Fixer::with_transform can only fail with TemplateFixError, an enum without variants"),
    (r"rule_config::RuleConfig::<L>::get_message$|print::Diff::<'n>::generate$", r"(expect|unwrap)", r"from_utf8", "ASSUMED", "replacement bytes are template text + slices of the UTF-8 source at node boundaries + transformed strings (value level, C07)"),
    (r"transformation::resolve_char$", r"assert:overflow_Add", None, "SAFE", "c > len returns early, so len + c <= 2*len; for c < 0, len + c >= i32::MIN since len >= 0"),
    (r"transformation::Substring::<.*>::compute$", r"index", None, "SAFE", "resolve_char clamps start and end into 0..=len (value level) but does not order them: `start > end` returns early before the slice (comparison checked to dominate the slice)", {"guard": "substring_bounds"}),
    (r"string_case::", r".*", None, "ASSUMED", "offsets are sums of len_utf8() of chars of the same string produced by char iteration (value level)"),
    (r"source::Content>::(get_char_column|get_range)$", r"index", None, "SAFE", TS),
    (r"source::Content>::get_text$", r"expect", None, "SAFE", TS),
    (r"source::Content>::get_char_column$", r"assert:overflow_Add", None, "SAFE", CNT),
    (r"(fixer::Fixer<L> as .*Replacer<D>>::get_replaced_range|replacer::Replacer::get_replaced_range)$", r"assert:overflow_Add", None, "SAFE", "start + matched length <= node end <= source length"),
    (r"pattern::Pattern<L> as .*::get_match_len$", r"assert:overflow_Sub", None, "ASSUMED", "end of the last matched child >= start of the node (value level, C03)"),
    (r"node::NodeWalker<'tree, D> as .*::next$", r"assert:overflow_Sub", None, "SAFE", "guarded by `if self.count == 0 { return None }`"),
    (r"traversal::(Pre|Post)::<'tree, D>::(step_down|trace_down)$", r"assert:overflow_Add", None, "SAFE", CNT),
    (r"traversal::(Pre|Post)::<'tree, D>::(step_up|trace_up)$", r"assert:overflow_Sub", None, "ASSUMED", "depth counter decremented only after a matching increment (cursor went down before it goes up; C19)"),
    (r"match_tree::Aggregator<'t, D>>::match_ellipsis$", r"drain", None, "SAFE", "skipped = len.saturating_sub(..) <= len"),
    (r"match_tree::match_node::", r"unwrap", r"peek", "SAFE", "the iterator is known non-empty on every path to this point (Peekable typestate analysis with inferred helper contracts)", {"guard": "peekable_nonempty"}),
    (r"match_tree::match_node::", r"unwrap", r"next", "SAFE", "the iterator is known non-empty before next() on every path (Peekable typestate analysis with inferred helper contracts)", {"guard": "peekable_nonempty"}),
    (r"match_tree::match_node::", r"assert:overflow_Add", None, "SAFE", CNT),
    (r"matcher::pattern::Pattern::<L>::single_matcher$", r"unwrap", None, "SAFE", "loop condition is_single_node implies child_count >= 1"),
    (r"matcher::pattern::is_single_node$", r"expect", None, "SAFE", "inside the `2 =>` arm of child_count"),
    (r"meta_var::extract_meta_var$", r"index", None, "SAFE", "after `src.starts_with(meta_char)`, the offset is that char's len_utf8"),
    (r"(meta_var::get_var_bytes_impl|replacer::template::maybe_get_var)$", r"index|assert:overflow_Sub", None, "SAFE", "after the `nodes.is_empty()` early return", {"guard": "multi_nodes_nonempty"}),
    (r"replacer::indent::get_indent_at_offset$", r".*", None, "SAFE", "`len.max(M) - M`, slice from an offset <= len, counter bounded by len"),
    (r"replacer::indent::get_(new_line|space)$", r"assert:bounds", None, "SAFE", "decode_str of a one-character literal is non-empty"),
    (r"replacer::indent::indent_lines$", r"assert:overflow_Sub", None, "SAFE", "each subtraction sits in the arm of `cmp` where the minuend is the greater"),
    (r"replacer::split_first_meta_var$", r".*", None, "ASSUMED", "template scanner arithmetic over `$`-prefixed slices: offsets are sums of len_utf8 of the meta char and of `find` results inside the same str (value level, C07/C20)"),
    (r"replacer::template::create_template$", r".*", None, "ASSUMED", "template scanner arithmetic: len/offset/i are positions returned by `find` on suffixes of the same str, advanced by one byte after an ASCII `$` (value level; relies on meta_var_char being 1 byte, true for all built-in languages)"),
    (r"replacer::structural::", r".*", None, "ASSUMED", "structural replacer (Root as Replacer) is library API, not constructible from YAML; node ranges nest (value level)"),
    (r"ast_grep_dynamic::DynamicLang::(inner|register_one)$|ast_grep_dynamic::DynamicLang as .*::from_path::\{closure#0\}$", r".*", None, "STARTUP-ONLY", "index created by register_one for the same registry vector; registration happens once in ProjectConfig::setup"),
    (r"ast_grep_dynamic::DynamicLang::file_types$|ast_grep_language::(file_types|add_custom_file_type|config_file_type)$", r"expect", None, "SAFE", "globs are `*.<ext>` built from extension tables validated at registration / constants"),
    (r"ast_grep_language::pre_process_pattern$", r"assert:overflow_Add", None, "SAFE", CNT),
    (r"ast_grep::lang::lang_globs::(add_types|merge_types|merge_globs)$", r"expect", None, "SAFE", "re-adds globs taken from already built `Types` (user globs were validated with `?` in build_types at setup)"),
    (r"ast_grep::config::ProjectConfig::discover_project$", r"expect", None, "STARTUP-ONLY", "the config path was found by joining a directory with a file name, so it has a parent"),
    (r"ast_grep::config::ProjectConfig::setup$", r"drain", None, "SAFE", "drain(..) with RangeFull never panics"),
    (r"ast_grep::(config|verify::find_file)::.*", r"expect", r"file_type", "SAFE", "ignore::DirEntry::file_type is None only for stdin entries; these walkers are built from directories"),
    (r"ast_grep::config::(read_directory_yaml|with_rule_stats)$", r"assert:overflow_Sub", None, "SAFE", "effective rules are a subset of the parsed rules: total_rule_count counts the collection built from that vector"),
    (r"rule_collection::RuleCollection::<L>::total_rule_count$", r"assert:overflow_Add", None, "SAFE", CNT),
    (r"combined::Suppressions::collect$", r"assert:overflow_Add", None, "SAFE", CNT),
    # ---------------- sg test / LSP paths ----------------------------------------------------------
    (r"source::Content>::accept_edit$", r".*", None, "ASSUMED", "edit position/length come from a match on this very document (make_edit / replace_by); napi/pyo3 callers pass user edits (C10/C06 value level)"),
    (r"ast_grep_core::source::position_for_offset$", r".*", None, "ASSUMED", "offset <= len by accept_edit's contract (value level); row/column counters are bounded by the text"),
    (r"ast_grep::verify::parallel_collect(::\{closure#\d\})*$", r"assert:(overflow_Add|div_zero)|chunks", None, "SAFE", "threads = available_parallelism().min(12) >= 1, so the divisor is non-zero and chunk_size = (len + threads) / threads >= 1"),
    (r"ast_grep::verify::parallel_collect(::\{closure#\d\})*$", r"unwrap", None, "SAFE", "join() only fails when the scoped child panicked; it re-raises that panic"),
    (r"ast_grep::verify::reporter::", r"assert:overflow_Add", None, "SAFE", CNT),
    (r"ast_grep::verify::reporter::InteractiveReporter<O> as .*::report_case_detail::\{closure#0\}$", r"panic", None, "SAFE", "prompt(.., \"ynaq\", ..) only returns one of the offered letters"),
    (r"ast_grep::verify::run_test_rule_impl(::\{closure#0\})?$", r"unwrap", r"lock", "ASSUMED", "mutex poisoning needs a panic in another reporter call"),
    (r"ast_grep::verify::run_test_rule_impl(::\{closure#0\})?$", r"unwrap", r"write_fmt", "STARTUP-ONLY", "writing the report to the terminal; fails only on a closed stdout"),
    # ---------------- CLI printing -------------------------------------------------------------
    (r"cloud_print::CloudProcessor as .*::print_(diffs|matches)$", r"panic_fmt", None, "SAFE", "`sg run` never selects the cloud printer (format flag exists only on `sg scan`)"),
    (r"(colored_print::ColoredProcessor as .*::print_rule|cloud_print::print_rule|colored_print::print_rule_title)$", r"panic_fmt", None, "SAFE", "rules with effective severity off are dropped before scanning (RuleCollection::try_new filters Severity::Off; scan --stdin filters on severity since finding F30)", {"guard": "off_rules_never_scanned"}),
    (r"ast_grep::run::RunWithSpecificLang as .*::(build_walk|produce_item|parse_stdin)$", r"expect", None, "SAFE", "RunWithSpecificLang is only constructed when arg.lang is Some"),
    (r"ast_grep::scan::ScanStdin as .*::parse_stdin$", r"index", None, "SAFE", "rules come from read_rule_file/from_yaml_string, which deserialise at least one YAML document or fail"),
    (r"ast_grep::print::Diff::<'n>::generate$", r"assert:overflow_Add", None, "SAFE", "position + deleted_length <= source length"),
    (r"ast_grep::print::(colored_print|cloud_print|interactive_print)::.*", r"assert:overflow_(Add|Sub)", None, "SAFE", CNT),
    (r"ast_grep::print::interactive_print::apply_rewrite$", r"index", None, "ASSUMED", "each slice runs from the end of the previous accepted edit to the start of the next (or to the end of the text): in range because Diff.range lies in the source (value level) and ordered because the accept loop only lets through a diff that starts at or after the end of the last accepted one (checked)", {"guard": "accept_loop_orders_diffs"}),
    (r"ast_grep::print::colored_print::.*", r"index", None, "ASSUMED", "slices use Diff.range / node ranges of the same source (value level, C06/C16)"),
    (r"ast_grep::print::interactive_print::InteractivePrinter::<P>::prompt_(edit|view)$", r"expect", None, "STARTUP-ONLY", "interactive terminal prompt I/O, not rule or source controlled"),
    (r"ast_grep::print::interactive_print::open_in_editor$", r"assert", None, "SAFE", CNT),
    (r"ast_grep::utils::args::NoIgnore::walk$", r"expect", None, "SAFE", "clap supplies the default path `.` when none is given"),
    (r"ast_grep::utils::inspect::TraceInfo::<T, W>::semi_structured_print$", r"expect", None, "ASSUMED", "mutex poisoning needs a panic while printing the trace"),
    (r"ast_grep::utils::print_diff::", r".*", None, "ASSUMED", "groups produced by `similar` are non-empty and indices are line numbers (value level)"),
    (r"node::Node::<'r, ast_grep_core::source::StrDoc<L>>::display_context$", r".*", None, "ASSUMED", "leading/trailing walk over the source bytes between 0 and len around a node range (value level, C16)"),
]


def main():
    d = extract.extract()
    prog = facts.Program(d)
    lr = c11.roots(prog, c11.LOAD_ROOTS)
    sr = c11.scan_roots(prog)
    reach = {r for r in prog.reach(lr | sr) if r in prog.fns and prog.fns[r].crate in c11.CRATES}
    sites = c11.site_list(prog, reach)
    rows = {}
    missing = []
    for s in sites:
        if c11.auto_discharge(prog, s):
            continue
        fid = s["fn"].id
        for r in RULES:
            fre, kre, dre, verdict, why = r[:5]
            extra = r[5] if len(r) > 5 else {}
            if re.search(fre, fid) and re.search(kre, s["kind"]) and (dre is None or re.search(dre, s["desc"])):
                row = {"verdict": verdict, "why": why, "file": s["fn"].file}
                row.update(extra)
                rows[s["key"]] = row
                break
        else:
            missing.append(s)
    for s in missing:
        print("UNREVIEWED", s["key"], s["fn"].loc(s["line"]))
    with open(os.path.join(HERE, "panic_sites.json"), "w") as fh:
        json.dump({"comment": "Reviewed verdicts for panic sites reachable from load/scan roots (C11-R1). Keys are line-free: function | kind | operand provenance [#ordinal].",
                   "sites": rows}, fh, indent=1, sort_keys=True)
    import collections
    print(collections.Counter(r["verdict"] for r in rows.values()), "unreviewed", len(missing))


if __name__ == "__main__":
    main()
