#!/usr/bin/env python3
"""Review helper for C13-R1 (not run by checks): freezes one row per hashed-iteration site that is not
auto-classified as order-insensitive, recording the sink signature computed at review time."""
import json, os, re, sys
HERE = os.path.dirname(os.path.abspath(__file__))
sys.path.insert(0, os.path.dirname(HERE))
from sgcheck import extract, facts
from sgcheck.rules import c13

EC = "ERROR-CHOICE"
RULES = [
    (r"ScanWithConfig as .*::build_walk$", "SET-UNION", "the languages only select file types for the walker (merge_types builds a union); a set, not a sequence"),
    (r"injection::register_injetables$", "KEYED", "values of a map keyed by language: entries have unique keys and are looked up by key (injectable_languages / extract_injections)"),
    (r"injection::register_injetables::\{closure#0\}$", "PRESENTATION", "order in which the injected languages of one host file are visited; every language is visited (affects emission order of per-document records only)"),
    (r"verify::write_merged_to_disk$", EC, "one snapshot file is written per key; order only decides which I/O error is reported first"),
    (r"check_var::check_rewriters_in_transform$", EC, "find_map over rewriters only picks WHICH undefined-rewriter error is reported; accept/reject is order-free"),
    (r"check_var::check_utils_defined$", EC, "first failing verify_util is reported; accept/reject is order-free"),
    (r"check_var::check_var_in_(constraints|fix|transform)$", EC, "membership tests against a fully built set; order only decides which undefined/duplicate variable is named in the error"),
    (r"combined::CombinedScan::<'r, L>::scan$", "SORTED-LATER", "unused-suppression nodes are sorted by start offset in ScanResultInner::into_result on both branches", {"guard": "suppressions_sorted_later"}),
    # (combined::ScanResultInner::into_result: no row — since the F31 repair the groups are sorted; an unsorted listing must be reported)
    (r"fixer::Fixer::<L>::(do_parse|with_transform)$", "SET-LIKE", "transform names are only tested with `contains` by the template scanner", {"guard": "transform_names_used_as_set"}),
    (r"deserialize_env::TopologicalSort::<'a, T>::get_order$", "TOPO", "dependencies are visited before dependants whatever the start key (R2: visit is post-order); order among independent keys and the key named in a cycle error vary, registration results do not"),
    (r"DependentRule>::visit_dependency::\{closure#\d\}$", "TOPO", "the rules of constraints/local utils are only walked to call TopologicalSort::visit for the ids they reference: a post-order visit yields dependencies first whatever the walk order (R2); only the id named in a cycle error can vary"),
    (r"rule_core::SerializableRuleCore::get_constraints$", EC, "map -> map; `?` only decides which invalid constraint is reported"),
    (r"impl core::convert::From<ast_grep_core::meta_var::MetaVarEnv<.*for std::collections::hash::map::HashMap<", "PER-KEY", "the sequence writes build one string per entry from that entry's own (ordered) node list; results go into a map"),
    (r"meta_var::MetaVarEnv::<'tree, D>::get_matched_variables$", "KEYED", "only non-test consumer is json_print::from_env, which files every variable into per-kind maps", {"guard": "matched_variables_consumers"}),
]

def main():
    prog = facts.Program(extract.extract())
    rows = {}
    for s in c13.enumerate_sites(prog):
        if c13.AUTO_OK.match(s["sig"]):
            continue
        fid = s["call"].fn.id
        for r in RULES:
            if re.search(r[0], fid):
                row = {"verdict": r[1], "why": r[2], "sig": s["sig"], "file": s["call"].fn.file}
                if len(r) > 3:
                    row.update(r[3])
                rows[s["key"]] = row
                break
        else:
            print("UNREVIEWED", s["key"], s["sig"])
    with open(os.path.join(HERE, "hash_order.json"), "w") as fh:
        json.dump({"comment": "C13-R1 reviewed verdicts for hashed iterations whose sink is not automatically order-insensitive. `sig` is the sink signature computed at review; a different signature voids the verdict.", "sites": rows}, fh, indent=1, sort_keys=True)
    print(len(rows), "rows")

main()
