#!/usr/bin/env python3
"""Regenerates MANIFEST.json from the table below (so it stays valid and in sync with the checks)."""
import json
import os

HERE = os.path.dirname(os.path.abspath(__file__))

CHECKS = {
    "C01": {
        "technique": "static analysis: MIR dataflow + impl-table rules (kind-set soundness, dispatch agreement, cache integrity, prefilter guard); must-pass-through of the kind index (every node looked up, every kind registered); sibling agreement of range-overlap boundaries; RuleCollection invariants (bucket uniqueness vs first-bucket readers, both storages read); single-skip-edge rule for find_all; rule-loading completeness (no dropping step between parsed rule files and the loaded list); evaluation of the literal routine with the constant each strictness arm passes (unnamed tokens match by kind alone); no Vec of matches is thinned",
        "text": "Static structural argument over the type-checked program (MIR of every Matcher impl, impl tables, call graph): decides the necessary conditions under which skipping by node kind or by literal substring cannot drop a match — who may restrict kinds, combinator polarity, cache integrity, skip sites test the matcher they run, strictness guard of the literal prefilter. It holds for all inputs because it is a statement about all paths of the code; it does not decide per-node matching itself. Also decided: every traversed node reaches the kind lookup and every potential kind is registered in the combined index; byte-range overlap filters use the half-open boundary.",
        "note": "Trusted: nightly rustc MIR/trait resolution; bit-set/tree-sitter/regex dependencies; reviewed same-node/other-node classification tables re-derived from MIR each run.",
        "design": "DESIGN.md §2 C01",
    },
    "C04": {
        "technique": "static analysis: environment-effect typestate over MIR (failure atomicity), guarded-insert who-may-write rule; same typestate over the pattern engine's aggregator; shape of the equality predicate (iterator-pipeline walk); lookup-arm rule for 'unbound' in match_multi_var; composite rule keys build the same-named operator; declared sub-rules bind into the caller's environment (shared with C12)",
        "text": "Static typestate over every Matcher::match_node_with_env body: after the caller's environment is exposed to a callee, can the function still return None / discard the candidate? Decides the failure-atomicity mechanism behind 'failed alternatives leave no trace' for all rules and candidate orders; does not decide structural equality of bindings. Also decided: failure atomicity inside the pattern engine (retries run on a scratch aggregator) and the shape of the equality behind a repeated variable (all children of both nodes, kinds and arity compared).",
        "note": "Trusted: MIR construction; explicit model of std Option/Iterator combinators listed in the checker; reviewed table of accepted scratch-and-commit idioms.",
        "design": "DESIGN.md §2 C04",
    },
    "C08": {
        "technique": "static analysis: trait-impl forwarding rule + generic-instantiation resolution + argument provenance over MIR; interprocedural value provenance (frame agreement of the splice base, file content identity, replacement-text identity per front end); splice purity of the applying writer; identity flow of the announced replacement offsets (Diff.range) into the JSON record",
        "text": "Static who-resolves-to-what argument: every instantiation chain that reaches the replaced-range computation with a rule's Fixer resolves to Fixer's own method (never the trait default), wrappers forward every overridable method, no front end uses the node-range shortcut with a Fixer, and matcher+fixer passed together come from one rule object. This is the whole mechanism by which front ends can disagree about an edit, so the structural claim is close to the behaviour. Also decided: the text a fix is spliced into is the document text its range refers to, and the scanned text is the file content unmodified.",
        "note": "Trusted: nightly rustc MIR/trait resolution; instantiation chains followed to depth 6; determinism of the shared functions is C13's concern.",
        "design": "DESIGN.md §2 C08",
    },
    "C09": {
        "technique": "static analysis: funnel (must-call / must-not-call) rules on front-end entry points, dominance check of the LSP stale-version guard; loop/pipeline completeness (no finding dropped before its emit), range provenance of listed findings; scanned-text identity (read_file); RuleCollection invariants (off rules never stored, bucket uniqueness, both storages read); message rendered per match (call inside the loop over matches); character-column rule for printed positions; must-pass-through of the client publish in Backend::publish_diagnostics",
        "text": "Static funnel argument: each front end obtains findings only from CombinedScan::scan over rules selected by the rule collection, messages only via RuleConfig::get_message; in the LSP change handler the version test dominates replacement and publication. Interleavings of concurrent handlers are not decided. Also decided: between scan result and listing no loop can skip its emit and no pipeline drops elements; the listed range is the matched node's; the combined index `sg test` is compared against is complete.",
        "note": "Trusted: MIR construction incl. coroutine lowering (CFG re-linked at resume points); tower-lsp scheduling is out of scope.",
        "design": "DESIGN.md §2 C09",
    },
    "C10": {
        "technique": "static analysis: call-path counting (exactly-once Tree::edit), provenance of every point handed to Tree::edit relative to the splice (buffer reads before/after), single-writer rule; must-pass-through of the re-parse; edit description passed on unmodified; every field of Root rewritten by the edit (no stale cache); who-supplies-the-parser rule (origin of the parser handed to the re-parse is not a cache / shared cell / static); constructor keeps the given text (identity flow); who-may-call rule on set_included_ranges (the re-parse covers the whole text)",
        "text": "Static protocol check of the edit description handed to tree-sitter: on every path old tree and text are updated by the same edit exactly once, positions are computed against the right text version (dominance relative to the splice), and nobody else can mutate the text behind the tree. A necessary condition of the behavioural property; tree-sitter itself is trusted. Also decided: every path after perform_edit re-parses; no function on the way to do_edit rewrites a field of the Edit.",
        "note": "Trusted: tree-sitter's incremental parser given a correct InputEdit; MIR construction.",
        "design": "DESIGN.md §2 C10",
    },
    "C11": {
        "technique": "static analysis: panic-site audit over the resolved call graph from load/scan roots, recursion (SCC) audit, regex-compile-at-load rule; dynamic-measure check of the rewriter recursion (application chain threaded through the cycle, guard dominates re-entry); dominating-comparison discharge (also through bool variables); affine symbolic execution of scanner loops (progress)",
        "text": "Static audit: every construct that can panic (MIR Assert terminators, calls into the panicking-API list) or recurse without a stated measure, in workspace code reachable from configuration loading and scanning, is either discharged by a reviewed invariant (with machine-checked guards where one exists) or reported. New unreviewed sites are violations. The rewriter recursion, which has no syntactic measure, is covered by checking that its application chain reaches every hop and that the re-entry guard dominates.",
        "note": "Trusted: reviewed tables under /verif/tables; dependencies (serde_yaml, regex, tree-sitter) do not panic/hang; call graph over-approximates trait calls by all workspace impls.",
        "design": "DESIGN.md §2 C11",
    },
    "C12": {
        "technique": "static analysis: check-funnel must-pass-through, type-driven visitor exhaustiveness, argument-flow (transform names reach every fixer construction); dominance of field tests over success exits in dependency visitors; declared-variables vs. environment-threading agreement; kind-set obligations shared with C01",
        "text": "Static argument that every matcher handed out passed the variable/reference checks, that structural visitors (defined_vars, verify_util, cycle detection) cover every rule-bearing field of the rule type, and that the fixer is built with knowledge of the transform names on every path. Also decided: dependency visitors examine every same-node field before succeeding, transformations always report their source to the sort, and a sub-rule whose variables are declared is never evaluated through the env-less API (converse clause).",
        "note": "Trusted: MIR/type tables; that Pattern::defined_vars equals run-time bindings is not decided.",
        "design": "DESIGN.md §2 C12",
    },
    "C13": {
        "technique": "static analysis: hashed-iteration sink classification + ordering-funnel dominance rules; loop-invariance of the rewriter-inherited environment in the hash-ordered transform loop; consumers of a hash-ordered name vector are membership/counting tests only (iterator followed to its consumer)",
        "text": "Static audit of every iteration over HashMap/HashSet/DashMap in workspace code: the iterator's sink is classified order-insensitive / order-sensitive; sensitive sites must be in a reviewed table or are violations; ordering funnels (toposort, sorts before dispatch, ordered snapshot maps) are checked by dominance.",
        "note": "Trusted: reviewed table /verif/tables/hash_order.json; dependencies deterministic; file enumeration order only affects emission order.",
        "design": "DESIGN.md §2 C13",
    },
    "C17": {
        "technique": "static analysis: effect analysis over the call graph from producer entry points (shared-state writes), CFG arm rule for per-file failure isolation; classified who-may-call table for walker filters; synchronisation-API audit (no readable shared state, no stdout) in producer-reachable code; panic-site audit restricted to producers; consumer-state audit (printer fields: latch, counter or writer only)",
        "text": "Static effect analysis valid for every schedule: code reachable from walker-thread producers performs no unsynchronised shared write (static mut, registries, env, cwd), per-file errors lead to Continue never Quit, each produced item is sent exactly once. Also decided: content-based skipping has one authority (read_file), walkers carry only path/config filters, producers share no readable state and never write stdout.",
        "note": "Trusted: ignore's parallel walker; std::sync::mpsc; setup happens-before spawn is checked by dominance in main.",
        "design": "DESIGN.md §2 C17",
    },
    "C18": {
        "technique": "static analysis: field-read provenance (announce/apply share one datum), who-may-write-files rule, loop rule for one payload per path; output-option read audit (announce/apply modes scan alike); payload completeness; frame agreement; half-open overlap boundary; scan-loop exhaustion independent of the mode flag; splice purity; consumer-state audit; dominance of the suppression test over every store of a match in the scan loop",
        "text": "Static argument that the JSON announcer and the applier read the same Diff fields, that only the interactive printer writes user files, and that no producer creates several whole-file Diffs payloads for one path inside a loop over documents. Also decided: producers read output options only through needs_interactive; every fixable match reaches the accept loop; the splice base is the document text; overlap filters use the half-open boundary.",
        "note": "Trusted: std::fs; byte-level equality of the written file is value-level and not decided.",
        "design": "DESIGN.md §2 C18",
    },
    "C20": {
        "technique": "static analysis: impl-table uniformity rules over all Language impls (recogniser funnel, expando<->pre-processing pairing, exhaustive language table); unit discipline of substring indices (character counts vs byte lengths); literal-coverage rule of the template scanner loop; sign test before index casts; validation dominates every accepting return of the recogniser; who-may-call rule on the template constructor (sigil argument is the language's meta_var_char); truth-table evaluation of two-flag decisions in the engine's meta-variable dispatch; must-pass-through of the recogniser call in pattern conversion",
        "text": "Static uniformity argument over the impl tables: every language ends in the one meta-variable recogniser, overrides expando_char iff it pre-processes patterns with the shared routine and its own expando, wrappers forward, the language table is exhaustive. The An+B/substring notations are value-level and declined. Of the small notations only the unit discipline of `substring` is decided (character counts end to end); the An+B arithmetic and the sigil-prefix scanners stay value level (three seeded changes there are deliberately not caught).",
        "note": "Trusted: compiler impl tables; tree-sitter grammars accept the expando character as an identifier character.",
        "design": "DESIGN.md §2 C20",
    },
}

NOT_APPLICABLE = {
    "C02": "Truth depends on the run-time walk of the child-alignment state machine over arbitrary sibling layouts of 23 grammars; no clause is visible in code shape and a path-insensitive static argument cannot relate convert_node_to_pattern to match_nodes_impl_recursive.",
    "C03": "A relation between the matcher's outcome and an independent alignment relation over run-time trees; deciding it means evaluating match_terminal/should_skip_* over symbolic node attributes (symbolic execution — a different technique family).",
    "C05": "Semantics of has/inside/stopBy/nthChild over arbitrary trees is a property of values produced by tree walks; the shape-level facts do not decide it.",
    "C06": "Containment, disjointness and UTF-8 boundaries of byte ranges are arithmetic facts about run-time offsets from tree-sitter; no sound static bound is in reach (the unchecked subtractions are audited under C11).",
    "C07": "Pure byte/column arithmetic over run-time strings (create_template, indent_lines, remove_indent); no structural clause implies it.",
    "C14": "Line arithmetic on run-time positions and parsing of comment text; no structural clause implies the iff.",
    "C15": "Dominated by glob/file-type semantics of globset/ignore over run-time paths and clap's argument parsing; shape-level facts do not decide the iff.",
    "C16": "Byte/character column conversion and context slicing are value computations; JSON framing depends on run-time buffer counts.",
    "C19": "Cursor state machines over run-time trees and tree-sitter's own navigation; termination/coverage arguments are inductive over tree shape, not visible in code shape.",
}


def main():
    implemented = sorted(
        p for p in CHECKS if os.path.exists(os.path.join(HERE, "sgcheck", "rules", p.lower() + ".py"))
    )
    checks = []
    for p in implemented:
        c = CHECKS[p]
        checks.append(
            {
                "property_id": p,
                "quick_cmd": "./check %s quick" % p,
                "thorough_cmd": "./check %s thorough" % p,
                "evidence_file": "/verif/evidence/%s.json" % p,
                "replay_cmd_template": "./check --replay {path}",
                "engine": "sgfacts+sgcheck",
                "level_claimed": {"category": "other", "text": c["text"], "design_ref": c["design"]},
                "level_note": c["note"],
                "technique": c["technique"],
            }
        )
    na = [{"property_id": p, "reason": r} for p, r in sorted(NOT_APPLICABLE.items())]
    for p in sorted(CHECKS):
        if p not in implemented:
            na.append({"property_id": p, "reason": "claimable by static analysis (see DESIGN.md §2) but its rule module is not built yet in this revision; not claimed until it is"})
    m = {
        "version": 1,
        "setup_cmd": "./setup.sh",
        "hooks": {
            "guard": "ast_grep_verif",
            "enable": "none needed: static analysis reads /repo's source through a rustc driver (RUSTC_WORKSPACE_WRAPPER); no instrumentation is compiled into ast-grep",
            "baseline_off_cmd": "cd /repo && cargo nextest run --workspace --no-fail-fast --tool-config-file pb:/w/lib/nextest.toml --profile pb --test-threads 8 --offline || (cd /repo && cargo test --workspace --no-fail-fast --offline)",
            "source_commits": [],
            "add_only": True,
        },
        "engines": [
            {
                "name": "sgfacts",
                "path": "/verif/sgfacts",
                "serves_properties": implemented,
                "kind_free_text": "nightly rustc_private driver run as RUSTC_WORKSPACE_WRAPPER under cargo +nightly check on /repo's working tree: dumps MIR CFGs with resolved callees, ADT/trait/impl tables as JSON facts",
            },
            {
                "name": "sgcheck",
                "path": "/verif/sgcheck",
                "serves_properties": implemented,
                "kind_free_text": "Python rule engine over the facts: call graph, dominators, provenance, generic-instantiation chains; one rule module per property; reviewed tables under /verif/tables; known findings in /verif/known_findings.json",
            },
        ],
        "checks": checks,
        "not_applicable": sorted(na, key=lambda x: x["property_id"]),
        "notes": "Technique family: static analysis only. Every verdict is computed from /repo's current source (type-checked program + MIR). Claimed properties are claimed for the structural clauses named in DESIGN.md §2 and in each evidence file's coverage.explanation/not_decided.",
    }
    with open(os.path.join(HERE, "MANIFEST.json"), "w") as fh:
        json.dump(m, fh, indent=1)
    print("MANIFEST.json: %d checks, %d not_applicable" % (len(checks), len(na)))


if __name__ == "__main__":
    main()
