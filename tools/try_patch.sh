#!/bin/sh
# usage: tools/try_patch.sh <patch.diff> [property ids…]   — apply a patch to /repo, run the quick checks, undo it
set -e
P="$1"; shift
PROPS="${*:-C01 C04 C08 C09 C10 C11 C12 C13 C17 C18 C20}"
cd /repo
if ! git diff --quiet; then echo "repo has local changes"; exit 2; fi
git apply "$P"
cd /verif
for p in $PROPS; do
  if [ -f sgcheck/rules/$(echo $p | tr A-Z a-z).py ]; then
    ./check $p quick 2>/dev/null | grep -E "^(VIOLATION|   key|   detail|$p )" | cut -c1-400 || true
  fi
done
cd /repo && git checkout -- . && git status --short | head -3
