"""usage: python3 -i tools/repl.py  — loads the facts of /repo's current tree as `prog`"""
import sys
sys.path.insert(0, '/verif')
from sgcheck import core, extract, facts
from sgcheck.query import *
prog = facts.Program(extract.extract())
