#!/usr/bin/env python3
"""usage: tools/try_entry.py <patch.diff> <PROP>…  — like try_patch.sh but on a scratch copy of /repo (safe while other checks run):
copies /repo's working tree outside /repo and /verif, applies the patch there, extracts facts, runs the rules, removes the copy."""
import os
import shutil
import sys
sys.path.insert(0, os.path.dirname(os.path.dirname(os.path.abspath(__file__))))
from sgcheck import selftest, extract, facts  # noqa: E402

patch = os.path.abspath(sys.argv[1])
props = sys.argv[2:]
d, dst = selftest.scratch_copy(extract.REPO)
try:
    ok, out = selftest.apply_patch(dst, patch)
    if not ok:
        print("patch does not apply:", out)
        sys.exit(2)
    try:
        fdir = extract.extract(repo=dst, config="default")
    except SystemExit as ex:
        print("does not compile:", ex)
        sys.exit(3)
    prog = facts.Program(fdir)
    for p in props:
        vs = selftest.violations_for(p, prog)
        print("%s: %d violation(s)" % (p, len(vs)))
        for v in vs:
            print("   key   :", v["key"])
            print("   detail:", v["detail"][:300])
finally:
    shutil.rmtree(d, ignore_errors=True)
