#!/bin/sh
# usage: archive_seed.sh <worktree> <seed id> <property> <needs> <caught_by>
# copies seed-out (without build output) and verify.log into /verif/seeded/<id>/ with a meta.json, then removes the worktree
W="$1"; ID="$2"; P="$3"; NEEDS="$4"; CAUGHT="$5"
D=/verif/seeded/$ID; mkdir -p "$D"
rsync -a --exclude target --exclude '*.log.full' "$W/seed-out/" "$D/"
cp "$W/verify.log" "$D/verify.log" 2>/dev/null
python3 - "$D" "$ID" "$P" "$NEEDS" "$CAUGHT" <<'PY'
import json, sys
d, i, p, needs, caught = sys.argv[1:6]
json.dump({"id": i, "breaks_property": p, "needs_to_manifest": needs, "caught_by": caught,
           "what_i_ran": "tools/verify_seed.sh <scratch worktree> (cargo test --workspace --offline with the change: existing tests ok; CLI rebuilt; seed-out/demo.sh fails with the change and passes with it stashed); tools/try_patch.sh seeded/%s/patch.diff <property>" % i,
           "origin": "written by an independent sub-agent that saw only the property text and a scratch worktree"}, open(d + "/meta.json", "w"), indent=1)
PY
git -C /repo worktree remove --force "$W" && echo "removed $W"
du -sh "$D" | cut -f1
