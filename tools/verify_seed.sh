#!/bin/sh
# usage: verify_seed.sh <worktree>  — re-verify a seeded change: suite passes with it, demo fails with it / passes without
W="$1"; cd "$W" || exit 2
export CARGO_NET_OFFLINE=true CARGO_TARGET_DIR="$W/target"
LOG="$W/verify.log"; : > "$LOG"
echo "== diff vs patch" >> "$LOG"
git diff -- crates > /tmp/cur.$$.diff; if diff -q /tmp/cur.$$.diff seed-out/patch.diff >/dev/null; then echo "patch applied: yes" >> "$LOG"; else echo "patch applied: DIFFERS" >> "$LOG"; fi; rm -f /tmp/cur.$$.diff
echo "== suite with change" >> "$LOG"
cargo test --workspace --offline 2>&1 | grep -E "^test result|FAILED|failed|^error" >> "$LOG"
echo "== demo with change" >> "$LOG"
cargo build --offline -p ast-grep >/dev/null 2>&1
( bash seed-out/demo.sh ) >> "$LOG" 2>&1; echo "demo exit with change: $?" >> "$LOG"
git stash -q -- crates
echo "== demo without change" >> "$LOG"
cargo build --offline -p ast-grep >/dev/null 2>&1
( bash seed-out/demo.sh ) >> "$LOG" 2>&1; echo "demo exit without change: $?" >> "$LOG"
git stash pop -q
cargo build --offline -p ast-grep >/dev/null 2>&1
echo "== done" >> "$LOG"
