#!/bin/sh
# usage: verify_seed.sh <worktree>  — re-verify a seeded change: suite passes with it, demo fails with it / passes without
# (no `git stash`: the stash list is shared by all worktrees of a repository, parallel runs would pop each other's entries)
W="$1"; cd "$W" || exit 2
export CARGO_NET_OFFLINE=true CARGO_TARGET_DIR="$W/target"
LOG="$W/verify.log"; : > "$LOG"
CUR="$W/.verify-cur.diff"
echo "== diff vs patch" >> "$LOG"
git diff -- crates > "$CUR"
if diff -q "$CUR" seed-out/patch.diff >/dev/null; then echo "patch applied: yes" >> "$LOG"; else
  echo "patch applied: DIFFERS — resetting the worktree to seed-out/patch.diff" >> "$LOG"
  git checkout -- crates && git apply seed-out/patch.diff || { echo "cannot apply seed-out/patch.diff" >> "$LOG"; exit 3; }
  git diff -- crates > "$CUR"
fi
git clean -fdq -- crates   # demo tests left behind by an earlier run must not be part of the suite
echo "== suite with change" >> "$LOG"
cargo test --workspace --offline 2>&1 | grep -E "^test result|FAILED|failed|^error" >> "$LOG"
echo "== demo with change" >> "$LOG"
cargo build --offline -p ast-grep >/dev/null 2>&1
( bash seed-out/demo.sh ) >> "$LOG" 2>&1; echo "demo exit with change: $?" >> "$LOG"
git checkout -- crates
echo "== demo without change" >> "$LOG"
cargo build --offline -p ast-grep >/dev/null 2>&1
( bash seed-out/demo.sh ) >> "$LOG" 2>&1; echo "demo exit without change: $?" >> "$LOG"
git checkout -- crates; git apply "$CUR"; rm -f "$CUR"
cargo build --offline -p ast-grep >/dev/null 2>&1
echo "== done" >> "$LOG"
