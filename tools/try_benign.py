#!/usr/bin/env python3
"""usage: tools/try_benign.py <patch.diff>…  — apply each (behaviour-preserving) patch to a scratch copy of /repo, run ALL claimed
properties' rules on it and print every violation (= false alarm).  Safe while other checks run (never touches /repo)."""
import json
import os
import shutil
import sys
sys.path.insert(0, os.path.dirname(os.path.dirname(os.path.abspath(__file__))))
from sgcheck import selftest, extract, facts  # noqa: E402

PROPS = ["C01", "C04", "C08", "C09", "C10", "C11", "C12", "C13", "C17", "C18", "C20"]
total = 0
for patch in sys.argv[1:]:
    patch = os.path.abspath(patch)
    d, dst = selftest.scratch_copy(extract.REPO)
    try:
        ok, out = selftest.apply_patch(dst, patch)
        if not ok:
            print("SKIP %s: does not apply (%s)" % (patch, out.strip()[:100]))
            continue
        try:
            fdir = extract.extract(repo=dst, config="default")
        except SystemExit as ex:
            print("SKIP %s: does not compile (%s)" % (patch, ex))
            continue
        prog = facts.Program(fdir)
        bad = []
        for p in PROPS:
            for v in selftest.violations_for(p, prog):
                bad.append((p, v["key"], v["detail"]))
        total += len(bad)
        print("%s %s: %d false alarm(s)" % ("FALSE-ALARM" if bad else "silent", patch, len(bad)))
        for p, k, dt in bad:
            print("    %s %s\n        %s" % (p, k[:200], dt[:260]))
        sys.stdout.flush()
    finally:
        shutil.rmtree(d, ignore_errors=True)
print("TOTAL false alarms: %d" % total)
