#!/usr/bin/env python3
"""Writes tables/fn_fingerprints.json: for every workspace function (not closures) of the reviewed tree its identity modulo its name —
owner (module or impl type + trait), source file, signature (types of the return place and the parameters).  The program loader uses
it to recognise a RENAMED function (same owner, same signature, old name gone, new name appeared) and gives it its reviewed name, so
rules that anchor functions by name stay silent on renames.  Re-run after changing /repo."""
import json
import os
import sys
sys.path.insert(0, os.path.dirname(os.path.dirname(os.path.abspath(__file__))))
from sgcheck import extract, facts, canon  # noqa: E402

prog = facts.Program(extract.extract(), apply_renames=False)
out = {}
for f in prog.fns.values():
    if f.is_closure:
        continue
    out[f.id] = canon.fingerprint(f.d, f.crate)
p = os.path.join(os.path.dirname(os.path.dirname(os.path.abspath(__file__))), "tables", "fn_fingerprints.json")
with open(p, "w") as fh:
    adts = {a["id"]: [[v["name"], [[fd["name"], fd["ty"]] for fd in v["fields"]]] for v in a["variants"]] for a in prog.adts.values() if a.get("crate", "").startswith("ast_grep")}
    json.dump({"comment": "identity of every reviewed workspace function modulo its name, and the fields of every workspace ADT (see tools/gen_fingerprints.py)", "fns": out, "adts": adts}, fh, indent=0, sort_keys=True)
print(len(out), "fingerprints")
