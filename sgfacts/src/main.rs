// sgfacts — MIR/type-table fact extractor for the ast-grep workspace.
//
// Used as RUSTC_WORKSPACE_WRAPPER under `cargo +nightly check`.  For every workspace crate it
// writes one JSON file `$SGFACTS_OUT/<crate>-<pid>.json` describing the type-checked program:
// every function/closure body as a CFG of simplified MIR (places with named field projections,
// calls with statically resolved callees, switch targets, asserts), plus ADT, trait, impl and
// static tables.  No decision is made here; all rules live in /verif/sgcheck.
#![feature(rustc_private)]

extern crate rustc_abi;
extern crate rustc_driver;
extern crate rustc_hir;
extern crate rustc_interface;
extern crate rustc_middle;
extern crate rustc_span;

use rustc_driver::Compilation;
use rustc_hir::def::DefKind;
use rustc_hir::def_id::{DefId, LOCAL_CRATE};
use rustc_middle::mir::{
  self, AggregateKind, BasicBlock, Body, BorrowKind, Const, Operand, Place, ProjectionElem,
  Rvalue, StatementKind, TerminatorKind, UnwindAction,
};
use rustc_middle::ty::print::{with_crate_prefix, with_no_trimmed_paths, with_no_visible_paths};
use rustc_middle::ty::{self, Instance, Ty, TyCtxt, TypingEnv};
use std::fmt::Write as _;

struct Cb;

fn esc(s: &str, out: &mut String) {
  out.push('"');
  for c in s.chars() {
    match c {
      '"' => out.push_str("\\\""),
      '\\' => out.push_str("\\\\"),
      '\n' => out.push_str("\\n"),
      '\r' => out.push_str("\\r"),
      '\t' => out.push_str("\\t"),
      c if (c as u32) < 0x20 => {
        let _ = write!(out, "\\u{:04x}", c as u32);
      }
      c => out.push(c),
    }
  }
  out.push('"');
}

fn q(s: &str) -> String {
  let mut o = String::with_capacity(s.len() + 2);
  esc(s, &mut o);
  o
}

struct Cx<'tcx> {
  tcx: TyCtxt<'tcx>,
  krate: String,
}

impl<'tcx> Cx<'tcx> {
  fn fix(&self, s: String) -> String {
    // `with_crate_prefix` prints the local crate as the keyword `crate`; make ids global.
    if !s.contains("crate") {
      return s;
    }
    let mut out = String::with_capacity(s.len() + 16);
    let b = s.as_bytes();
    let mut i = 0;
    while i < b.len() {
      if s[i..].starts_with("crate::")
        && (i == 0 || !(b[i - 1].is_ascii_alphanumeric() || b[i - 1] == b'_'))
      {
        out.push_str(&self.krate);
        out.push_str("::");
        i += 7;
      } else {
        let ch = s[i..].chars().next().unwrap();
        out.push(ch);
        i += ch.len_utf8();
      }
    }
    out
  }
  fn path(&self, d: DefId) -> String {
    let s = with_no_trimmed_paths!(with_no_visible_paths!(with_crate_prefix!(self.tcx.def_path_str(d))));
    self.fix(s)
  }
  fn path_args(&self, d: DefId, args: ty::GenericArgsRef<'tcx>) -> String {
    let s = with_no_trimmed_paths!(with_no_visible_paths!(with_crate_prefix!(self.tcx.def_path_str_with_args(d, args))));
    self.fix(s)
  }
  fn ty(&self, t: Ty<'tcx>) -> String {
    let s = with_no_trimmed_paths!(with_no_visible_paths!(with_crate_prefix!(format!("{}", t))));
    self.fix(s)
  }
  fn line(&self, sp: rustc_span::Span) -> (String, usize) {
    let sm = self.tcx.sess.source_map();
    let lo = sm.lookup_char_pos(sp.lo());
    let name = match &lo.file.name {
      rustc_span::FileName::Real(r) => r
        .local_path()
        .map(|p| p.to_string_lossy().to_string())
        .unwrap_or_else(|| format!("{:?}", lo.file.name)),
      other => format!("{:?}", other),
    };
    (name, lo.line)
  }
  fn lineno(&self, sp: rustc_span::Span) -> usize {
    // use the outermost call-site so that macro-expanded code is attributed to the user line
    let sp = sp.source_callsite();
    self.tcx.sess.source_map().lookup_char_pos(sp.lo()).line
  }

  fn place(&self, body: &Body<'tcx>, p: &Place<'tcx>) -> String {
    let mut out = String::new();
    let _ = write!(out, "[{},[", p.local.as_usize());
    let mut pty = mir::PlaceTy::from_ty(body.local_decls[p.local].ty);
    let mut first = true;
    for elem in p.projection.iter() {
      if !first {
        out.push(',');
      }
      first = false;
      match elem {
        ProjectionElem::Deref => out.push_str("\"*\""),
        ProjectionElem::Field(f, _) => {
          let mut name = format!("{}", f.as_usize());
          let mut owner = String::new();
          match pty.ty.kind() {
            ty::Adt(adt, _) => {
              let vidx = pty.variant_index.unwrap_or(rustc_abi::FIRST_VARIANT);
              if adt.variants().len() > vidx.as_usize() {
                let v = adt.variant(vidx);
                if let Some(fd) = v.fields.get(f) {
                  name = fd.name.to_string();
                }
                owner = self.path(adt.did());
                if adt.is_enum() {
                  owner.push_str("::");
                  owner.push_str(v.name.as_str());
                }
              }
            }
            ty::Closure(d, _) | ty::Coroutine(d, _) | ty::CoroutineClosure(d, _) => {
              owner = self.path(*d);
            }
            _ => {}
          }
          esc(&format!(".{}|{}", name, owner), &mut out);
        }
        ProjectionElem::Downcast(name, vidx) => {
          let n = match name {
            Some(s) => s.to_string(),
            None => format!("{}", vidx.as_usize()),
          };
          esc(&format!("@{}", n), &mut out);
        }
        ProjectionElem::Index(l) => esc(&format!("[_{}]", l.as_usize()), &mut out),
        ProjectionElem::ConstantIndex { offset, from_end, .. } => {
          esc(&format!("[c{}{}]", if from_end { "-" } else { "" }, offset), &mut out)
        }
        ProjectionElem::Subslice { .. } => out.push_str("\"[..]\""),
        _ => out.push_str("\"~\""),
      }
      pty = pty.projection_ty(self.tcx, elem);
    }
    out.push_str("]]");
    out
  }

  fn constant(&self, c: &mir::ConstOperand<'tcx>) -> String {
    let ty = c.const_.ty();
    let mut out = String::from("{");
    if let ty::FnDef(d, args) = ty.kind() {
      let _ = write!(out, "\"fn\":{},\"fnargs\":{}", q(&self.path(*d)), q(&self.path_args(*d, args)));
    } else if let ty::Closure(d, _) = ty.kind() {
      let _ = write!(out, "\"closure\":{}", q(&self.path(*d)));
    } else {
      let disp = with_no_trimmed_paths!(format!("{}", c.const_));
      let _ = write!(out, "\"v\":{},\"ty\":{}", q(&disp), q(&self.ty(ty)));
      if let Some(d) = c.check_static_ptr(self.tcx) {
        let _ = write!(out, ",\"static\":{}", q(&self.path(d)));
      }
      if let Const::Val(mir::ConstValue::Scalar(mir::interpret::Scalar::Int(i)), t) = c.const_ {
        if t.is_integral() || t.is_bool() || t.is_char() {
          let bits = i.to_bits_unchecked();
          let _ = write!(out, ",\"bits\":{}", q(&format!("{}", bits)));
        }
      }
    }
    out.push('}');
    out
  }

  fn operand(&self, body: &Body<'tcx>, o: &Operand<'tcx>) -> String {
    match o {
      Operand::Copy(p) => format!("[\"c\",{}]", self.place(body, p)),
      Operand::Move(p) => format!("[\"m\",{}]", self.place(body, p)),
      Operand::Constant(c) => format!("[\"k\",{}]", self.constant(c)),
      #[allow(unreachable_patterns)]
      _ => "[\"k\",{\"v\":\"?\"}]".to_string(),
    }
  }

  fn rvalue(&self, body: &Body<'tcx>, r: &Rvalue<'tcx>) -> String {
    match r {
      Rvalue::Use(o, ..) => format!("[\"use\",{}]", self.operand(body, o)),
      Rvalue::Repeat(o, _) => format!("[\"rep\",{}]", self.operand(body, o)),
      Rvalue::Ref(_, bk, p) => {
        let k = match bk {
          BorrowKind::Shared => "shared",
          BorrowKind::Fake(_) => "fake",
          BorrowKind::Mut { .. } => "mut",
        };
        format!("[\"ref\",\"{}\",{}]", k, self.place(body, p))
      }
      Rvalue::ThreadLocalRef(d) => format!("[\"tls\",{}]", q(&self.path(*d))),
      Rvalue::RawPtr(k, p) => {
        let k = format!("{:?}", k);
        format!("[\"ptr\",{},{}]", q(&k), self.place(body, p))
      }
      Rvalue::Cast(k, o, t) => {
        let k = format!("{:?}", k);
        format!("[\"cast\",{},{},{}]", q(&k), self.operand(body, o), q(&self.ty(*t)))
      }
      Rvalue::BinaryOp(op, ab) => {
        let (a, b) = &**ab;
        format!(
          "[\"bin\",\"{:?}\",{},{}]",
          op,
          self.operand(body, a),
          self.operand(body, b)
        )
      }
      Rvalue::UnaryOp(op, a) => format!("[\"un\",\"{:?}\",{}]", op, self.operand(body, a)),
      Rvalue::Discriminant(p) => {
        let pty = p.ty(&body.local_decls, self.tcx).ty;
        let mut vars = String::from("[");
        if let ty::Adt(adt, _) = pty.kind() {
          if adt.is_enum() {
            let mut first = true;
            for (vidx, d) in adt.discriminants(self.tcx) {
              if !first {
                vars.push(',');
              }
              first = false;
              let _ = write!(vars, "[{},{}]", q(&format!("{}", d.val)), q(adt.variant(vidx).name.as_str()));
            }
          }
        }
        vars.push(']');
        format!("[\"discr\",{},{},{}]", self.place(body, p), q(&self.ty(pty)), vars)
      }
      Rvalue::Aggregate(k, ops) => {
        let kd = match &**k {
          AggregateKind::Array(_) => "{\"k\":\"array\"}".to_string(),
          AggregateKind::Tuple => "{\"k\":\"tuple\"}".to_string(),
          AggregateKind::Adt(d, v, _, _, _) => {
            let adt = self.tcx.adt_def(*d);
            let var = adt.variant(*v);
            let names: Vec<String> = var.fields.iter().map(|f| q(f.name.as_str())).collect();
            format!(
              "{{\"k\":\"adt\",\"adt\":{},\"variant\":{},\"fields\":[{}]}}",
              q(&self.path(*d)),
              q(var.name.as_str()),
              names.join(",")
            )
          }
          AggregateKind::Closure(d, _) => format!("{{\"k\":\"closure\",\"def\":{}}}", q(&self.path(*d))),
          AggregateKind::Coroutine(d, _) => format!("{{\"k\":\"coroutine\",\"def\":{}}}", q(&self.path(*d))),
          AggregateKind::CoroutineClosure(d, _) => {
            format!("{{\"k\":\"coroutine_closure\",\"def\":{}}}", q(&self.path(*d)))
          }
          AggregateKind::RawPtr(..) => "{\"k\":\"rawptr\"}".to_string(),
        };
        let os: Vec<String> = ops.iter().map(|o| self.operand(body, o)).collect();
        format!("[\"agg\",{},[{}]]", kd, os.join(","))
      }
      Rvalue::CopyForDeref(p) => format!("[\"cfd\",{}]", self.place(body, p)),
      #[allow(unreachable_patterns)]
      _ => "[\"other\"]".to_string(),
    }
  }

  fn callee(&self, body: &Body<'tcx>, owner: DefId, func: &Operand<'tcx>) -> String {
    let tcx = self.tcx;
    let mut out = String::from("{");
    let fty = func.ty(&body.local_decls, tcx);
    match fty.kind() {
      ty::FnDef(d, args) => {
        let _ = write!(out, "\"path\":{},\"full\":{}", q(&self.path(*d)), q(&self.path_args(*d, args)));
        let targs: Vec<String> = args.iter().map(|a| q(&self.fix(with_no_trimmed_paths!(with_no_visible_paths!(with_crate_prefix!(format!("{}", a))))))).collect();
        let _ = write!(out, ",\"targs\":[{}]", targs.join(","));
        if let Some(tr) = tcx.trait_of_assoc(*d) {
          let _ = write!(out, ",\"trait\":{}", q(&self.path(tr)));
          if let Some(st) = args.types().next() {
            let _ = write!(out, ",\"self\":{}", q(&self.ty(st)));
          }
        }
        if let Some(imp) = tcx.impl_of_assoc(*d) {
          let _ = write!(out, ",\"impl_self\":{}", q(&self.ty(tcx.type_of(imp).instantiate_identity().skip_norm_wip())));
        }
        let env = TypingEnv::post_analysis(tcx, owner);
        let res = std::panic::catch_unwind(std::panic::AssertUnwindSafe(|| {
          Instance::try_resolve(tcx, env, *d, args)
        }));
        match res {
          Ok(Ok(Some(inst))) => {
            let rd = inst.def_id();
            let kind = match inst.def {
              ty::InstanceKind::Item(_) => "item",
              ty::InstanceKind::Virtual(..) => "virtual",
              ty::InstanceKind::Intrinsic(_) => "intrinsic",
              ty::InstanceKind::ClosureOnceShim { .. } => "closure_once",
              ty::InstanceKind::FnPtrShim(..) => "fnptr_shim",
              ty::InstanceKind::DropGlue(..) => "drop_glue",
              ty::InstanceKind::CloneShim(..) => "clone_shim",
              ty::InstanceKind::ReifyShim(..) => "reify",
              _ => "other",
            };
            let _ = write!(
              out,
              ",\"res\":{},\"res_full\":{},\"res_kind\":\"{}\"",
              q(&self.path(rd)),
              q(&self.path_args(rd, inst.args)),
              kind
            );
          }
          _ => {}
        }
      }
      _ => {
        let _ = write!(out, "\"indirect\":{},\"fty\":{}", self.operand(body, func), q(&self.ty(fty)));
      }
    }
    out.push('}');
    out
  }

  fn bb(b: BasicBlock) -> usize {
    b.as_usize()
  }
  fn unwind(u: &UnwindAction) -> String {
    match u {
      UnwindAction::Cleanup(b) => format!("{}", b.as_usize()),
      _ => "null".to_string(),
    }
  }

  fn body(&self, owner: DefId, body: &Body<'tcx>, out: &mut String) {
    // locals
    out.push_str("\"nargs\":");
    let _ = write!(out, "{}", body.arg_count);
    out.push_str(",\"locals\":[");
    for (i, d) in body.local_decls.iter().enumerate() {
      if i > 0 {
        out.push(',');
      }
      esc(&self.ty(d.ty), out);
    }
    out.push_str("],\"names\":[");
    let mut first = true;
    for v in &body.var_debug_info {
      if let mir::VarDebugInfoContents::Place(p) = &v.value {
        if !first {
          out.push(',');
        }
        first = false;
        let _ = write!(out, "[{},{}]", q(v.name.as_str()), self.place(body, p));
      }
    }
    out.push_str("],\"blocks\":[");
    for (bi, bd) in body.basic_blocks.iter().enumerate() {
      if bi > 0 {
        out.push(',');
      }
      out.push_str("{\"s\":[");
      let mut first = true;
      for st in &bd.statements {
        let enc = match &st.kind {
          StatementKind::Assign(b) => {
            let (p, r) = &**b;
            Some(format!(
              "[\"A\",{},{},{},{}]",
              self.place(body, p),
              self.rvalue(body, r),
              self.lineno(st.source_info.span),
              if st.source_info.span.from_expansion() { 1 } else { 0 }
            ))
          }
          StatementKind::SetDiscriminant { place, variant_index } => {
            let pty = place.ty(&body.local_decls, self.tcx).ty;
            let vname = match pty.kind() {
              ty::Adt(adt, _) if adt.variants().len() > variant_index.as_usize() => {
                adt.variant(*variant_index).name.to_string()
              }
              _ => format!("{}", variant_index.as_usize()),
            };
            Some(format!(
              "[\"D\",{},{},{}]",
              self.place(body, place),
              q(&vname),
              variant_index.as_usize()
            ))
          }
          _ => None,
        };
        if let Some(e) = enc {
          if !first {
            out.push(',');
          }
          first = false;
          out.push_str(&e);
        }
      }
      out.push_str("],\"t\":");
      let term = bd.terminator();
      let ln = self.lineno(term.source_info.span);
      let exp = if term.source_info.span.from_expansion() { 1 } else { 0 };
      let t = match &term.kind {
        TerminatorKind::Goto { target } => format!("[\"goto\",{}]", Self::bb(*target)),
        TerminatorKind::SwitchInt { discr, targets } => {
          let ts: Vec<String> = targets.iter().map(|(v, b)| format!("[{},{}]", q(&format!("{}", v)), Self::bb(b))).collect();
          format!(
            "[\"switch\",{},[{}],{},{}]",
            self.operand(body, discr),
            ts.join(","),
            Self::bb(targets.otherwise()),
            ln
          )
        }
        TerminatorKind::Return => "[\"ret\"]".to_string(),
        TerminatorKind::Unreachable => "[\"unreachable\"]".to_string(),
        TerminatorKind::UnwindResume => "[\"resume\"]".to_string(),
        TerminatorKind::UnwindTerminate(_) => "[\"abort\"]".to_string(),
        TerminatorKind::Drop { place, target, unwind, .. } => format!(
          "[\"drop\",{},{},{}]",
          self.place(body, place),
          Self::bb(*target),
          Self::unwind(unwind)
        ),
        TerminatorKind::Call { func, args, destination, target, unwind, .. } => {
          let a: Vec<String> = args.iter().map(|a| self.operand(body, &a.node)).collect();
          format!(
            "[\"call\",{},[{}],{},{},{},{},{}]",
            self.callee(body, owner, func),
            a.join(","),
            self.place(body, destination),
            target.map(|t| format!("{}", Self::bb(t))).unwrap_or("null".into()),
            Self::unwind(unwind),
            ln,
            exp
          )
        }
        TerminatorKind::TailCall { func, args, .. } => {
          let a: Vec<String> = args.iter().map(|a| self.operand(body, &a.node)).collect();
          format!(
            "[\"call\",{},[{}],[0,[]],null,null,{},{}]",
            self.callee(body, owner, func),
            a.join(","),
            ln,
            exp
          )
        }
        TerminatorKind::Assert { cond, expected, msg, target, unwind } => {
          use mir::AssertKind::*;
          let (k, ops): (String, Vec<String>) = match &**msg {
            BoundsCheck { len, index } => ("bounds".into(), vec![self.operand(body, len), self.operand(body, index)]),
            Overflow(op, a, b) => (format!("overflow_{:?}", op), vec![self.operand(body, a), self.operand(body, b)]),
            OverflowNeg(a) => ("overflow_neg".into(), vec![self.operand(body, a)]),
            DivisionByZero(a) => ("div_zero".into(), vec![self.operand(body, a)]),
            RemainderByZero(a) => ("rem_zero".into(), vec![self.operand(body, a)]),
            ResumedAfterReturn(_) | ResumedAfterPanic(_) | ResumedAfterDrop(_) => ("resumed".into(), vec![]),
            MisalignedPointerDereference { .. } => ("misaligned".into(), vec![]),
            NullPointerDereference => ("nullptr".into(), vec![]),
            InvalidEnumConstruction(_) => ("invalid_enum".into(), vec![]),
          };
          format!(
            "[\"assert\",{},{},{},{},{},[{}],{},{}]",
            q(&k),
            self.operand(body, cond),
            expected,
            Self::bb(*target),
            Self::unwind(unwind),
            ops.join(","),
            ln,
            exp
          )
        }
        TerminatorKind::Yield { resume, drop, .. } => format!(
          "[\"yield\",{},{}]",
          Self::bb(*resume),
          drop.map(|d| format!("{}", Self::bb(d))).unwrap_or("null".into())
        ),
        TerminatorKind::CoroutineDrop => "[\"codrop\"]".to_string(),
        TerminatorKind::FalseEdge { real_target, imaginary_target } => {
          format!("[\"falseedge\",{},{}]", Self::bb(*real_target), Self::bb(*imaginary_target))
        }
        TerminatorKind::FalseUnwind { real_target, .. } => format!("[\"goto\",{}]", Self::bb(*real_target)),
        TerminatorKind::InlineAsm { targets, .. } => {
          let ts: Vec<String> = targets.iter().map(|b| format!("{}", Self::bb(*b))).collect();
          format!("[\"asm\",[{}]]", ts.join(","))
        }
      };
      out.push_str(&t);
      let _ = write!(out, ",\"c\":{}}}", if bd.is_cleanup { 1 } else { 0 });
    }
    out.push(']');
  }
}

fn vis_str<'tcx>(tcx: TyCtxt<'tcx>, d: DefId) -> String {
  match tcx.visibility(d) {
    ty::Visibility::Public => "pub".to_string(),
    ty::Visibility::Restricted(m) => {
      if m.is_crate_root() {
        "crate".to_string()
      } else {
        format!("in:{}", with_no_trimmed_paths!(tcx.def_path_str(m)))
      }
    }
  }
}

impl rustc_driver::Callbacks for Cb {
  fn after_analysis<'tcx>(&mut self, _c: &rustc_interface::interface::Compiler, tcx: TyCtxt<'tcx>) -> Compilation {
    let out_dir = match std::env::var("SGFACTS_OUT") {
      Ok(d) => d,
      Err(_) => return Compilation::Continue,
    };
    let krate = tcx.crate_name(LOCAL_CRATE).to_string();
    if krate == "build_script_build" {
      return Compilation::Continue;
    }
    let cx = Cx { tcx, krate: krate.clone() };
    let run = std::env::var("SGFACTS_RUN").unwrap_or_default();
    let mut out = String::with_capacity(1 << 22);
    let _ = write!(out, "{{\"crate\":{},\"run\":{},\"fns\":[", q(&krate), q(&run));
    let mut nfn = 0usize;
    for ldid in tcx.hir_body_owners() {
      let did = ldid.to_def_id();
      let kind = tcx.def_kind(did);
      let is_fn = matches!(kind, DefKind::Fn | DefKind::AssocFn | DefKind::Closure | DefKind::SyntheticCoroutineBody);
      if !is_fn {
        continue;
      }
      if !tcx.is_mir_available(did) {
        continue;
      }
      let body = tcx.optimized_mir(did);
      if nfn > 0 {
        out.push(',');
      }
      nfn += 1;
      let (file, line) = cx.line(tcx.def_span(did));
      let _ = write!(
        out,
        "{{\"id\":{},\"kind\":\"{:?}\",\"file\":{},\"line\":{}",
        q(&cx.path(did)),
        kind,
        q(&file),
        line
      );
      {
        let ident = ty::GenericArgs::identity_for_item(tcx, did);
        let gs: Vec<String> = ident
          .iter()
          .map(|a| q(&cx.fix(with_no_trimmed_paths!(with_no_visible_paths!(with_crate_prefix!(format!("{}", a)))))))
          .collect();
        let _ = write!(out, ",\"generics\":[{}]", gs.join(","));
      }
      if matches!(kind, DefKind::Closure | DefKind::SyntheticCoroutineBody) {
        let parent = tcx.typeck_root_def_id(did);
        let _ = write!(out, ",\"root\":{}", q(&cx.path(parent)));
        let _ = write!(out, ",\"parent\":{}", q(&cx.path(tcx.parent(did))));
        if tcx.is_coroutine(did) {
          out.push_str(",\"coroutine\":1");
        }
      } else {
        let _ = write!(out, ",\"vis\":{}", q(&vis_str(tcx, did)));
        let gens = tcx.generics_of(did);
        let _ = write!(out, ",\"ngenerics\":{}", gens.count());
        if tcx.asyncness(did).is_async() {
          out.push_str(",\"async\":1");
        }
      }
      if let Some(imp) = tcx.impl_of_assoc(did) {
        let st = tcx.type_of(imp).instantiate_identity().skip_norm_wip();
        let _ = write!(out, ",\"impl_self\":{}", q(&cx.ty(st)));
        if let Some(tr) = tcx.impl_opt_trait_ref(imp) {
          let tr = tr.instantiate_identity().skip_norm_wip();
          let _ = write!(out, ",\"impl_trait\":{}", q(&cx.path(tr.def_id)));
        }
        let _ = write!(out, ",\"name\":{}", q(tcx.item_name(did).as_str()));
      } else if let Some(tr) = tcx.trait_of_assoc(did) {
        let _ = write!(out, ",\"trait_default\":{}", q(&cx.path(tr)));
        let _ = write!(out, ",\"name\":{}", q(tcx.item_name(did).as_str()));
      } else if matches!(kind, DefKind::Fn) {
        let _ = write!(out, ",\"name\":{}", q(tcx.item_name(did).as_str()));
      }
      out.push(',');
      cx.body(did, body, &mut out);
      out.push('}');
    }
    out.push_str("],\"adts\":[");
    let mut first = true;
    let mut impls = String::new();
    let mut traits = String::new();
    let mut statics = String::new();
    for id in tcx.hir_crate_items(()).definitions() {
      let did = id.to_def_id();
      match tcx.def_kind(did) {
        DefKind::Struct | DefKind::Enum | DefKind::Union => {
          let adt = tcx.adt_def(did);
          if !first {
            out.push(',');
          }
          first = false;
          let (file, line) = cx.line(tcx.def_span(did));
          let _ = write!(
            out,
            "{{\"id\":{},\"kind\":\"{:?}\",\"vis\":{},\"file\":{},\"line\":{},\"variants\":[",
            q(&cx.path(did)),
            tcx.def_kind(did),
            q(&vis_str(tcx, did)),
            q(&file),
            line
          );
          for (vi, v) in adt.variants().iter().enumerate() {
            if vi > 0 {
              out.push(',');
            }
            let _ = write!(out, "{{\"name\":{},\"fields\":[", q(v.name.as_str()));
            for (fi, f) in v.fields.iter().enumerate() {
              if fi > 0 {
                out.push(',');
              }
              let fty = tcx.type_of(f.did).instantiate_identity().skip_norm_wip();
              let _ = write!(
                out,
                "{{\"name\":{},\"ty\":{},\"vis\":{}}}",
                q(f.name.as_str()),
                q(&cx.ty(fty)),
                q(&vis_str(tcx, f.did))
              );
            }
            out.push_str("]}");
          }
          out.push_str("]}");
        }
        DefKind::Impl { of_trait } => {
          if !impls.is_empty() {
            impls.push(',');
          }
          let st = tcx.type_of(did).instantiate_identity().skip_norm_wip();
          let (file, line) = cx.line(tcx.def_span(did));
          let _ = write!(impls, "{{\"self\":{},\"file\":{},\"line\":{}", q(&cx.ty(st)), q(&file), line);
          let mut have: Vec<DefId> = vec![];
          impls.push_str(",\"items\":[");
          let mut f2 = true;
          for it in tcx.associated_items(did).in_definition_order() {
            if !matches!(it.kind, ty::AssocKind::Fn { .. }) {
              continue;
            }
            if !f2 {
              impls.push(',');
            }
            f2 = false;
            let _ = write!(impls, "{{\"name\":{},\"id\":{}}}", q(it.name().as_str()), q(&cx.path(it.def_id)));
            if let Some(t) = it.trait_item_def_id() {
              have.push(t);
            }
          }
          impls.push(']');
          if of_trait {
            let tr = tcx.impl_trait_ref(did).instantiate_identity().skip_norm_wip();
            let _ = write!(impls, ",\"trait\":{},\"trait_full\":{}", q(&cx.path(tr.def_id)), q(&cx.path_args(tr.def_id, tr.args)));
            impls.push_str(",\"inherited\":[");
            let mut f3 = true;
            for it in tcx.provided_trait_methods(tr.def_id) {
              if !have.contains(&it.def_id) {
                if !f3 {
                  impls.push(',');
                }
                f3 = false;
                esc(it.name().as_str(), &mut impls);
              }
            }
            impls.push(']');
          }
          impls.push('}');
        }
        DefKind::Trait => {
          if !traits.is_empty() {
            traits.push(',');
          }
          let _ = write!(traits, "{{\"id\":{},\"methods\":[", q(&cx.path(did)));
          let mut f2 = true;
          for it in tcx.associated_items(did).in_definition_order() {
            if !matches!(it.kind, ty::AssocKind::Fn { .. }) {
              continue;
            }
            if !f2 {
              traits.push(',');
            }
            f2 = false;
            let _ = write!(
              traits,
              "{{\"name\":{},\"id\":{},\"default\":{}}}",
              q(it.name().as_str()),
              q(&cx.path(it.def_id)),
              it.defaultness(tcx).has_value()
            );
          }
          traits.push_str("]}");
        }
        DefKind::Static { mutability, .. } => {
          if !statics.is_empty() {
            statics.push(',');
          }
          let sty = tcx.type_of(did).instantiate_identity().skip_norm_wip();
          let _ = write!(
            statics,
            "{{\"id\":{},\"mut\":{},\"ty\":{}}}",
            q(&cx.path(did)),
            mutability.is_mut(),
            q(&cx.ty(sty))
          );
        }
        _ => {}
      }
    }
    let _ = write!(out, "],\"impls\":[{}],\"traits\":[{}],\"statics\":[{}],\"nfn\":{}}}", impls, traits, statics, nfn);
    let path = format!("{}/{}-{}.json", out_dir, krate, std::process::id());
    std::fs::write(&path, out).expect("sgfacts: cannot write fact file");
    Compilation::Continue
  }
}

fn main() {
  let mut args: Vec<String> = std::env::args().collect();
  // RUSTC_WORKSPACE_WRAPPER passes the real rustc path as argv[1]
  if args.len() > 1 && (args[1].ends_with("rustc") || args[1].contains("/rustc")) {
    args.remove(1);
  }
  rustc_driver::run_compiler(&args, &mut Cb);
}
