"""Typestate analysis for `Peekable` iterators: NE(it) = "it.peek() would return Some".

Forward dataflow (must-analysis, intersection at joins) over the MIR CFG of each function that handles a Peekable:
  * a branch on the result of `it.peek()` (match / `let … else` / `?` / is_none()/is_some()) establishes NE(it) on the Some side;
  * `it.next()` consumes: NE(it) is dropped, and the call remembers whether NE(it) held before (then `next().unwrap()` is safe);
  * handing the iterator to any other call drops NE(it), unless the callee is a workspace function with a summary:
      Pre(g)  = iterator parameters that g needs non-empty on entry,
      Post(g)[X] = iterator parameters known non-empty when g returns `Some(ControlFlow::X)`;
    the caller gets Post(g)[X] on arm X of its match over the returned value;
  * obligations: `it.peek().unwrap()` needs NE(it); `it.next().unwrap()` needs NE(it) before the next(); a call of g needs Pre(g).
Everything is intraprocedural except the summaries, which are computed first for the helper functions (those taking
`&mut Peekable` parameters) and then used in their callers."""
import re

PEEK = re.compile(r"core::iter::adapters::peekable::Peekable::<I>::peek$")
NEXT = re.compile(r"<core::iter::adapters::peekable::Peekable<I> as core::iter::traits::iterator::Iterator>::next$")
PEEKABLE_TY = re.compile(r"core::iter::adapters::peekable::Peekable<")


def iter_params(f):
    return [i for i in range(1, f.nargs + 1) if PEEKABLE_TY.search(f.locals[i]) and f.locals[i].startswith("&mut")]


class Analysis:
    def __init__(self, prog, f, summaries, entry):
        self.prog = prog
        self.f = f
        self.sum = summaries
        self.entry = frozenset(entry)
        self.inst = {}
        self.obligations = []  # (kind, iterator id, line, ok)
        self.returns = {}  # variant -> list of states
        self.run()

    # -- identity of an iterator operand ----------------------------------------------------
    def iter_id(self, op):
        if op[0] == "k":
            return None
        ids = set()
        for o in self.f.trace_operand(op):
            if o.kind == "param" and PEEKABLE_TY.search(self.f.locals[o.ref]):
                ids.add(("p", o.ref))
            elif o.kind == "call" and PEEKABLE_TY.search(self.f.locals[o.ref.dest[0]]) and not o.proj:
                ids.add(("c", o.ref.bb))
            elif o.kind == "local" and PEEKABLE_TY.search(self.f.locals[o.ref]):
                ids.add(("l", o.ref))
        return next(iter(ids)) if len(ids) == 1 else None

    def result_of(self, op):
        """if op is (a ref to / copy of) the result of a peek/next/helper call: return that Call"""
        if op[0] == "k":
            return None
        for o in self.f.trace_operand(op):
            if o.kind == "call" and not [p for p in o.proj if p not in ("*", "&")]:
                return o.ref
        return None

    # -- dataflow -------------------------------------------------------------------------------
    def transfer_call(self, c, state, record=False):
        f = self.f
        st = set(state)
        if PEEK.search(c.best):
            return frozenset(st)
        if NEXT.search(c.best):
            it = self.iter_id(c.args[0])
            self.held[c.bb] = it in st if it is not None else False
            st.discard(it)
            return frozenset(st)
        if c.name in ("unwrap", "expect") and c.args:
            r = self.result_of(c.args[0])
            if r is not None and record:
                if PEEK.search(r.best):
                    it = self.iter_id(r.args[0])
                    self.obligations.append(("peek().unwrap()", it, c.line, it in st))
                elif NEXT.search(r.best):
                    it = self.iter_id(r.args[0])
                    self.obligations.append(("next().unwrap()", it, c.line, bool(self.held.get(r.bb))))
            return frozenset(st)
        tg = self.prog.call_targets(c)
        summ = self.sum.get(tg[0]) if len(tg) == 1 else None
        passed = []
        for i, a in enumerate(c.args):
            it = self.iter_id(a)
            if it is not None:
                passed.append((i, it))
        if summ is not None:
            if record:
                for i, it in passed:
                    if (i + 1) in summ["pre"]:
                        self.obligations.append(("call %s needs its iterator argument #%d non-empty" % (c.name, i + 1), it, c.line, it in st))
            for i, it in passed:
                st.discard(it)
            self.callres[c.bb] = {it: i + 1 for i, it in passed}
            return frozenset(st)
        if passed and c.name not in ("deref", "deref_mut", "by_ref"):
            for i, it in passed:
                st.discard(it)
        return frozenset(st)

    def refine(self, bi, state):
        """per-successor states for a switch block"""
        f = self.f
        si = f.switch_info(bi)
        out = {}
        if not si:
            return out
        arms = si["arms"]
        if si.get("enum") and si["place"] is not None:
            roots = f.trace_place(si["place"])
            for o in roots:
                if o.kind != "call":
                    continue
                c = o.ref
                en = si["enum"]
                plain = not [p for p in o.proj if p not in ("*", "&")]
                if PEEK.search(c.best) and plain and en.startswith("core::option::Option"):
                    it = self.iter_id(c.args[0])
                    out[arms.get("Some")] = state | {it}
                    out[arms.get("None")] = state - {it}
                elif c.name == "branch" and plain and "ControlFlow" in en and c.args:
                    r = self.result_of(c.args[0])
                    if r is not None and PEEK.search(r.best):
                        it = self.iter_id(r.args[0])
                        out[arms.get("Continue")] = state | {it}
                        out[arms.get("Break")] = state - {it}
                elif en.endswith("match_node::ControlFlow"):
                    # the user enum returned (inside Some) by a summarised helper
                    g = None
                    if c.bb in self.callres:
                        g = c
                    elif c.name == "branch" and c.args:
                        r = self.result_of(c.args[0])
                        if r is not None and r.bb in self.callres:
                            g = r
                    if g is not None:
                        tg = self.prog.call_targets(g)
                        summ = self.sum.get(tg[0]) if len(tg) == 1 else None
                        if summ:
                            for v, target in arms.items():
                                if v not in summ["post"]:
                                    # the helper never returns this variant: the arm is infeasible
                                    out.setdefault(target, "INFEASIBLE")
                                    continue
                                add = {it for it, pidx in self.callres[g.bb].items() if pidx in summ["post"][v]}
                                prev = out.get(target, state)
                                out[target] = (state if prev == "INFEASIBLE" else prev) | add
        elif "true" in arms:
            d = si.get("bool_def")
            origins = f.trace_operand(si["op"])
            for o in origins:
                if o.kind == "call" and o.ref.name in ("is_none", "is_some") and o.ref.args:
                    r = self.result_of(o.ref.args[0])
                    if r is not None and PEEK.search(r.best):
                        it = self.iter_id(r.args[0])
                        some_arm = "false" if o.ref.name == "is_none" else "true"
                        none_arm = "true" if o.ref.name == "is_none" else "false"
                        out[arms[some_arm]] = state | {it}
                        out[arms[none_arm]] = state - {it}
        return out

    def run(self):
        f = self.f
        self.held = {}
        self.callres = {}
        TOP = None
        inst = {b: TOP for b in f.live_blocks}
        inst[0] = self.entry
        work = [0]
        outst = {}
        it_guard = 0
        while work and it_guard < 20000:
            it_guard += 1
            b = work.pop()
            state = inst[b]
            if state is None:
                continue
            c = f.call_at(b)
            post = self.transfer_call(c, state) if c is not None else state
            outst[b] = post
            per = self.refine(b, post) if f.blocks[b]["t"][0] == "switch" else {}
            for s in f.succ[b]:
                ns = per.get(s, post)
                if isinstance(ns, str):
                    continue
                old = inst.get(s)
                new = ns if old is None else (old & ns)
                if new != old:
                    inst[s] = frozenset(new)
                    work.append(s)
        self.inst = inst
        # final pass: obligations and return states with stable in-states
        self.obligations = []
        for b in sorted(f.live_blocks):
            if inst[b] is None:
                continue
            c = f.call_at(b)
            if c is not None:
                self.transfer_call(c, inst[b], record=True)
        for b in sorted(f.live_blocks):
            if inst[b] is None:
                continue
            for st in f.blocks[b]["s"]:
                if st[0] == "A" and st[1][0] == 0 and not st[1][1] and st[2][0] == "agg" and st[2][1].get("variant") == "Some":
                    v = None
                    for o in f.trace_operand(st[2][2][0]) if st[2][2] else []:
                        if o.kind == "agg" and o.ref[2][1].get("adt", "").endswith("match_node::ControlFlow"):
                            v = o.ref[2][1]["variant"]
                    if v is not None:
                        self.returns.setdefault(v, []).append(outst.get(b, inst[b]))


def summarise(prog, f):
    params = iter_params(f)
    ids = [("p", i) for i in params]
    opt = Analysis(prog, f, {}, ids)          # optimistic: all iterator params non-empty on entry
    pess = Analysis(prog, f, {}, [])          # nothing assumed
    need = set()
    for (k1, it1, l1, ok1), (k2, it2, l2, ok2) in zip(opt.obligations, pess.obligations):
        if ok1 and not ok2 and it1 is not None and it1[0] == "p":
            need.add(it1[1])
    # re-run with exactly the needed preconditions
    fin = Analysis(prog, f, {}, [("p", i) for i in need])
    post = {}
    for v, states in fin.returns.items():
        common = None
        for s in states:
            s = {x[1] for x in s if x[0] == "p"}
            common = s if common is None else (common & s)
        post[v] = common or set()
    return {"pre": need, "post": post, "analysis": fin}


def analyse_module(prog, fn_filter):
    """returns (summaries, per-function analyses) for functions matching fn_filter"""
    fns = [f for f in prog.fns.values() if fn_filter(f) and not f.is_closure]
    helpers = [f for f in fns if iter_params(f)]
    summaries = {}
    for h in helpers:
        summaries[h.id] = summarise(prog, h)
    # helpers may call each other: one more round with summaries available
    for h in helpers:
        pre = summaries[h.id]["pre"]
        a = Analysis(prog, h, {k: v for k, v in summaries.items() if k != h.id}, [("p", i) for i in pre])
        summaries[h.id]["analysis"] = a
    results = {}
    for f in fns:
        if f.id in summaries:
            results[f.id] = summaries[f.id]["analysis"]
        else:
            results[f.id] = Analysis(prog, f, summaries, [])
    return summaries, results
