"""Fact extraction runner: hashes /repo's working tree, runs the sgfacts driver under
`cargo +nightly check` when the tree changed, and returns the directory with per-crate JSON facts.

Fail-closed: a workspace member without a fact file carrying the current run id is an error."""
import fcntl
import glob
import hashlib
import json
import os
import shutil
import subprocess
import sys
import time

VERIF = os.path.dirname(os.path.dirname(os.path.abspath(__file__)))
REPO = os.environ.get("SG_REPO", "/repo")
CACHE = os.path.join(VERIF, ".cache")
DRIVER_DIR = os.path.join(VERIF, "sgfacts")
DRIVER_TARGET = os.path.join(CACHE, "sgfacts-target")
DRIVER = os.path.join(DRIVER_TARGET, "release", "sgfacts")

# crate names (rustc crate names) that must be analysed on every run
REQUIRED_CRATES = [
    "ast_grep_core",
    "ast_grep_config",
    "ast_grep_language",
    "ast_grep_dynamic",
    "ast_grep",
    "ast_grep_lsp",
    "ast_grep_napi",
]
# minimum number of bodies per crate, counted on the pinned tree (fail closed on a silent drop)
BODY_FLOORS = {
    "ast_grep_core": 300,
    "ast_grep_config": 600,
    "ast_grep_language": 200,
    "ast_grep_dynamic": 30,
    "ast_grep": 800,
    "ast_grep_lsp": 60,
    "ast_grep_napi": 100,
}


def log(*a):
    print("[extract]", *a, file=sys.stderr, flush=True)


def env_offline(extra=None):
    e = dict(os.environ)
    e["CARGO_NET_OFFLINE"] = "true"
    if extra:
        e.update(extra)
    return e


def nightly_sysroot():
    return subprocess.check_output(["rustc", "+nightly", "--print", "sysroot"], text=True).strip()


def tree_hash(repo=REPO, features=""):
    h = hashlib.sha256()
    files = []
    for root, dirs, fs in os.walk(repo):
        dirs[:] = sorted(d for d in dirs if d not in ("target", ".git", "node_modules"))
        for f in sorted(fs):
            if f.endswith(".rs") or f in ("Cargo.toml", "Cargo.lock", "rust-toolchain.toml", "config.toml"):
                files.append(os.path.join(root, f))
    for p in files:
        h.update(os.path.relpath(p, repo).encode())
        h.update(b"\0")
        try:
            with open(p, "rb") as fh:
                h.update(fh.read())
        except OSError:
            h.update(b"<unreadable>")
        h.update(b"\0")
    # the driver is part of the identity of the facts
    with open(os.path.join(DRIVER_DIR, "src", "main.rs"), "rb") as fh:
        h.update(fh.read())
    h.update(features.encode())
    return h.hexdigest()[:24]


def build_driver():
    src = os.path.join(DRIVER_DIR, "src", "main.rs")
    if os.path.exists(DRIVER) and os.path.getmtime(DRIVER) >= os.path.getmtime(src):
        return
    log("building sgfacts driver")
    os.makedirs(DRIVER_TARGET, exist_ok=True)
    r = subprocess.run(
        ["cargo", "+nightly", "build", "--release", "--offline"],
        cwd=DRIVER_DIR,
        env=env_offline({"CARGO_TARGET_DIR": DRIVER_TARGET}),
        stdout=subprocess.PIPE,
        stderr=subprocess.STDOUT,
        text=True,
    )
    if r.returncode != 0:
        sys.stderr.write(r.stdout)
        raise SystemExit("sgfacts driver failed to build")


def purge_fingerprints(target):
    fp = os.path.join(target, "debug", ".fingerprint")
    if not os.path.isdir(fp):
        return
    for d in os.listdir(fp):
        if d.startswith(("ast-grep", "xtask", "benches")):
            shutil.rmtree(os.path.join(fp, d), ignore_errors=True)


def extract(repo=REPO, config="default"):
    """Return the directory holding fact files for the current tree of `repo`."""
    os.makedirs(CACHE, exist_ok=True)
    lock = open(os.path.join(CACHE, "extract.lock"), "w")
    fcntl.flock(lock, fcntl.LOCK_EX)
    try:
        build_driver()
        th = tree_hash(repo, config)
        out = os.path.join(CACHE, "facts", th)
        if os.path.exists(os.path.join(out, "COMPLETE")):
            return out
        shutil.rmtree(out, ignore_errors=True)
        os.makedirs(out)
        run_id = "%s-%d" % (th, int(time.time()))
        target = os.path.join(CACHE, "target-" + config)
        purge_fingerprints(target)
        env = env_offline(
            {
                "LD_LIBRARY_PATH": nightly_sysroot() + "/lib",
                "RUSTFLAGS": "-Zmir-opt-level=0 -Awarnings",
                "CARGO_PROFILE_DEV_OVERFLOW_CHECKS": "true",
                "CARGO_PROFILE_DEV_DEBUG_ASSERTIONS": "true" if config == "debugassert" else "false",
                "SGFACTS_OUT": out,
                "SGFACTS_RUN": run_id,
                "RUSTC_WORKSPACE_WRAPPER": DRIVER,
                "CARGO_TARGET_DIR": target,
            }
        )
        cmd = ["cargo", "+nightly", "check", "--offline", "--workspace", "--exclude", "benches", "--exclude", "xtask"]
        t0 = time.time()
        log("extracting facts for tree", th, "config", config)
        r = subprocess.run(cmd, cwd=repo, env=env, stdout=subprocess.PIPE, stderr=subprocess.STDOUT, text=True)
        if r.returncode != 0:
            sys.stderr.write(r.stdout[-6000:])
            shutil.rmtree(out, ignore_errors=True)
            raise SystemExit("cargo check of /repo failed: the tree does not compile")
        seen = {}
        for f in glob.glob(os.path.join(out, "*.json")):
            with open(f) as fh:
                d = json.load(fh)
            if d.get("run") != run_id:
                raise SystemExit("stale fact file " + f)
            seen[d["crate"]] = seen.get(d["crate"], 0) + d["nfn"]
        for c in REQUIRED_CRATES:
            if c not in seen:
                shutil.rmtree(out, ignore_errors=True)
                raise SystemExit("fact extraction incomplete: no facts for crate %s (driver skipped?)" % c)
            if seen[c] < BODY_FLOORS[c]:
                shutil.rmtree(out, ignore_errors=True)
                raise SystemExit("fact extraction incomplete: crate %s has %d bodies < floor %d" % (c, seen[c], BODY_FLOORS[c]))
        with open(os.path.join(out, "COMPLETE"), "w") as fh:
            json.dump({"run": run_id, "bodies": seen, "wall_s": time.time() - t0, "tree": th}, fh)
        log("done in %.1fs" % (time.time() - t0), seen)
        # prune old fact dirs (keep 40 most recent: the thorough tier analyses many scratch copies)
        root = os.path.join(CACHE, "facts")
        ds = sorted((os.path.getmtime(os.path.join(root, d)), d) for d in os.listdir(root))
        for _, d in ds[:-40]:
            shutil.rmtree(os.path.join(root, d), ignore_errors=True)
        return out
    finally:
        fcntl.flock(lock, fcntl.LOCK_UN)
        lock.close()


if __name__ == "__main__":
    print(extract(config=sys.argv[1] if len(sys.argv) > 1 else "default"))
