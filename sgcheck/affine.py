"""Affine symbolic execution of a scanner loop `while let Some(i) = text[base..].find(p) { … }`.

The search restarts at `base`; `i` is relative to it.  The loop terminates on every input only if each way round the loop moves the
restart position past the sigil just found: base' >= base + i + (something positive).  `base` is an expression over loop-carried
cursor variables (e.g. `len + offset`); the body updates them on several paths.  This module executes every path round the loop over
affine forms (sums of symbols with integer coefficients plus a constant) and reports the paths on which base' - base - i is not a
non-negative combination with a positive part — e.g. `1 - offset` when a path writes `offset = i + 1` instead of `offset + i + 1`."""


class Form(dict):
    """symbol -> coefficient; the key 1 holds the constant"""
    def __add__(self, o):
        r = Form(self)
        for k, v in o.items():
            r[k] = r.get(k, 0) + v
            if r[k] == 0:
                del r[k]
        return r

    def __neg__(self):
        return Form({k: -v for k, v in self.items()})

    def __sub__(self, o):
        return self + (-o)


def sym(name):
    return Form({name: 1})


def const(n):
    return Form({1: n}) if n else Form()


def parse_int(c):
    v = str(c.get("v", ""))
    digits = v.split("_")[0]
    try:
        return int(digits)
    except ValueError:
        return None


class LoopExec:
    def __init__(self, f, find_call, base_op, agg_block, agg_index, max_paths=400):
        self.f, self.find, self.base_op = f, find_call, base_op
        self.ab, self.ai = agg_block, agg_index
        self.results = []          # (path description, diff Form)
        self.paths = 0
        self.max_paths = max_paths

    def place_sym(self, place, it):
        return sym("%s%s@%d" % (self.f.local_name(place[0]) if not place[1] else "_%d" % place[0], "".join(map(str, place[1])), it))

    def ev_op(self, env, op, it):
        if op[0] == "k":
            n = parse_int(op[1])
            return const(n) if n is not None else sym("k%s" % op[1].get("v"))
        l, proj = op[1][0], op[1][1]
        if not proj:
            return env[l] if l in env else sym("%s@in" % self.f.local_name(l))
        # `(checked op result).0`
        if l in env and len(proj) == 1 and str(proj[0]).startswith(".0") and isinstance(env[l], Form) and env.get(("tuple", l)):
            return env[l]
        # payload of the find result
        if l in self.find_locals(env):
            return sym("i@%d" % env.get("it_find", it))
        return sym("%s%s@%d" % (self.f.local_name(l), "".join(map(str, proj)), env.get("it", it)))

    def find_locals(self, env):
        return env.get("find_locals", set())

    def run(self, header):
        # start at the loop header; loop-carried locals are symbols of themselves
        self.header = header
        self.walk(header, 0, {"it": 0, "find_locals": set()}, None, [], 0)
        return self.results

    def walk(self, b, si, env, base0, trail, depth):
        f = self.f
        if self.paths > self.max_paths or depth > 400:
            return
        env = dict(env)
        blk = f.blocks[b]
        for idx in range(si, len(blk["s"])):
            st = blk["s"][idx]
            if b == self.ab and idx == self.ai:
                cur = self.ev_op(env, self.base_op, env["it"])
                if base0 is None:
                    if env["it"] != 0:
                        return          # the slice is not computed in the first pass from the header: shape not understood
                    base0 = cur
                    env["it_find"] = env["it"]
                else:
                    self.paths += 1
                    self.results.append((list(trail), cur - base0 - sym("i@%d" % env["it_find"])))
                    return
            if st[0] != "A":
                continue
            dest, rv = st[1], st[2]
            if dest[1]:
                continue
            l = dest[0]
            env.pop(("tuple", l), None)
            k = rv[0]
            if k == "use":
                src = rv[1]
                if src[0] != "k" and not src[1][1] and src[1][0] in self.find_locals(env):
                    env["find_locals"] = set(env["find_locals"]) | {l}
                env[l] = self.ev_op(env, src, env["it"])
            elif k in ("bin", "checked") and str(rv[1]).replace("WithOverflow", "") in ("Add", "Sub"):
                a, c = self.ev_op(env, rv[2], env["it"]), self.ev_op(env, rv[3], env["it"])
                env[l] = a + c if str(rv[1]).startswith("Add") else a - c
                if k == "checked" or "WithOverflow" in str(rv[1]):
                    env[("tuple", l)] = True
            elif k == "cast":
                env[l] = self.ev_op(env, rv[2], env["it"])
            else:
                env[l] = sym("%s@%d.%d" % (f.local_name(l), b, idx))
        t = blk["t"]
        if t[0] == "ret":
            return
        if t[0] == "call":
            c = f.call_at(b)
            if c is not None and c.dest and not c.dest[1]:
                dl = c.dest[0]
                env.pop(("tuple", dl), None)
                if c is self.find or (c.bb == self.find.bb):
                    env["find_locals"] = {dl}
                    env[dl] = sym("find@%d" % env["it"])
                else:
                    env[dl] = sym("%s()@%d" % (c.name, b))
        succs = [s for s in f.succ[b] if s in f.live_blocks and not f.blocks[s].get("c")]
        for s2 in succs:
            # a step back to the head block = next iteration
            env2 = env
            if s2 == self.header:
                env2 = dict(env)
                env2["it"] = env["it"] + 1
                if env2["it"] > 1:
                    continue
            self.walk(s2, 0, env2, base0, trail + [s2], depth + 1)


def progress_problems(form):
    """why base' - base - i is not 'a non-negative combination with a positive part' (None if it is)"""
    neg = {k: v for k, v in form.items() if v < 0}
    pos = {k: v for k, v in form.items() if v > 0}
    if neg:
        return "the restart position falls short by %s" % " ".join("%+d*%s" % (v, "1" if k == 1 else k) for k, v in sorted(neg.items(), key=lambda x: str(x[0])))
    if not pos:
        return "the restart position does not move past the found position"
    return None
