"""Shared query primitives on top of facts.Program."""
import re
from .facts import Origin

IDENT = re.compile(r"[A-Za-z_][A-Za-z0-9_]*")

# callees through which the identity of "which object is this" flows from argument 0
TRANSPARENT = {
    "as_ref", "as_mut", "as_deref", "as_deref_mut", "deref", "deref_mut", "borrow", "borrow_mut", "clone", "cloned",
    "copied", "unwrap", "expect", "unwrap_or_default", "into", "from", "to_owned", "as_str", "as_slice",
    "branch", "from_residual", "into_iter", "iter", "iter_mut", "by_ref", "as_path", "to_string", "unwrap_unchecked",
    "into_owned", "get_or_insert_with", "ok", "ok_or", "ok_or_else", "map_err", "context", "with_context",
    "into_inner", "get_mut", "get",
}


def type_params(fn):
    """names of the type parameters in scope of fn (closures include their parents')"""
    out = []
    for g in fn.d.get("generics", []):
        if g.startswith("'") or g.startswith("<closure") or g.startswith("<upvars") or g.startswith("<coroutine") or g.startswith("<"):
            continue
        out.append(g)
    return out


def mentions(ty, params):
    for p in params:
        if IDENT.fullmatch(p):
            for m in IDENT.finditer(ty):
                if m.group(0) == p:
                    # make sure it is not a path segment like foo::D or D::x
                    s, e = m.span()
                    if ty[max(0, s - 2):s] == "::":
                        continue
                    return True
        elif p in ty:
            return True
    return False


def subst(ty, env):
    """replace type parameter names by concrete strings"""
    if not env:
        return ty
    # non-identifier param names (impl Trait) first
    for p, v in env.items():
        if not IDENT.fullmatch(p) and p in ty:
            ty = ty.replace(p, v)

    def rep(m):
        w = m.group(0)
        s = m.start()
        if ty[max(0, s - 2):s] == "::":
            return w
        return env.get(w, w)

    return IDENT.sub(rep, ty)


def instantiations(prog, target_id, maxdepth=6, _depth=0, _stack=()):
    """All instantiations of generic function `target_id` reachable through recorded call sites.
    Returns list of (env: {param: concrete type string}, chain: [Call…] outermost first, closed: bool).
    closed=False when the chain ends in a generic function without recorded callers (a public
    generic API): the remaining parameters stay symbolic."""
    fn = prog.fns.get(target_id)
    if fn is None:
        return []
    if fn.is_closure and fn.root in prog.fns:
        # a closure is instantiated with its root function
        res = []
        for env, chain, closed in instantiations(prog, fn.root, maxdepth, _depth, _stack):
            res.append((env, chain, closed))
        return res
    params = type_params(fn)
    allparams = [g for g in fn.d.get("generics", [])]
    if not params:
        return [({}, [], True)]
    sites = [c for c in prog.call_sites.get(target_id, []) if c.callee.get("res") == target_id or c.callee.get("path") == target_id]
    out = []
    if not sites or _depth >= maxdepth or target_id in _stack:
        return [({p: p for p in params}, [], False)]
    for c in sites:
        targs = c.callee.get("res_full") and None
        targs = c.callee.get("targs") or []
        if len(targs) != len(allparams):
            # resolved instance may have different arity than declared path; fall back to symbolic
            out.append(({p: p for p in params}, [c], False))
            continue
        env0 = {allparams[i]: targs[i] for i in range(len(allparams)) if not allparams[i].startswith("'")}
        caller = c.fn
        cparams = type_params(caller)
        if any(mentions(v, cparams) for v in env0.values()):
            for cenv, chain, closed in instantiations(prog, caller.id, maxdepth, _depth + 1, _stack + (target_id,)):
                env = {k: subst(v, cenv) for k, v in env0.items()}
                out.append((env, chain + [c], closed))
        else:
            out.append((env0, [c], True))
    return out


def deep_roots(prog, fn, operand, transparent=TRANSPARENT, depth=0, seen=None):
    """Origins of an operand, looking through transparent calls (arg 0) — answers 'which object
    does this value belong to'."""
    if seen is None:
        seen = set()
    out = []
    for o in fn.trace_operand(operand):
        out.extend(_expand(prog, fn, o, transparent, depth, seen))
    return out


def deep_roots_local(prog, fn, local, transparent=TRANSPARENT):
    out = []
    seen = set()
    for o in fn.trace_local(local):
        out.extend(_expand(prog, fn, o, transparent, 0, seen))
    return out


def _expand(prog, fn, o, transparent, depth, seen):
    if o.kind == "call" and depth < 12:
        c = o.ref
        key = (fn.id, c.bb)
        if c.name in transparent and c.args and key not in seen:
            seen.add(key)
            res = []
            for o2 in fn.trace_operand(c.args[0]):
                for r in _expand(prog, fn, o2, transparent, depth + 1, seen):
                    res.append(Origin(r.kind, r.ref, r.proj + ("()" + c.name,) + o.proj))
            return res
    return [o]


def field_path(proj):
    """['*', '.matcher|X', '.fixer|Y'] -> ['matcher', 'fixer']"""
    out = []
    for p in proj:
        if p.startswith("."):
            out.append(p[1:].split("|")[0])
    return out


def capture_origin(prog, closure_fn, origin):
    """If `origin` is a read of a captured variable of a closure (param 1 field), map it to the
    origins of the captured operand in the parent function at the closure's creation site."""
    if origin.kind != "param" or origin.ref != 1 or not closure_fn.is_closure:
        return None
    idx = None
    for p in origin.proj:
        if p.startswith("."):
            n = p[1:].split("|")[0]
            if n.isdigit():
                idx = int(n)
            break
    if idx is None:
        return None
    parent = prog.fns.get(closure_fn.parent) or getattr(prog, "inlined_fns", {}).get(closure_fn.parent)
    if parent is None:
        return None
    for bi, b in enumerate(parent.blocks):
        for s in b["s"]:
            if s[0] == "A" and s[2][0] == "agg" and s[2][1].get("def") == closure_fn.id:
                ops = s[2][2]
                if idx < len(ops):
                    rest = []
                    skipped = False
                    for p in origin.proj:
                        if not skipped and p.startswith("."):
                            skipped = True
                            continue
                        if skipped:
                            rest.append(p)
                    return parent, ops[idx], tuple(rest)
    return None


def ultimate_roots(prog, fn, operand, transparent=TRANSPARENT, depth=0):
    """deep_roots that also walks out of closures through captured variables; returns list of
    (fn, Origin)"""
    out = []
    for o in deep_roots(prog, fn, operand, transparent):
        cap = capture_origin(prog, fn, o) if depth < 6 else None
        if cap:
            pf, op, rest = cap
            for pfn, po in ultimate_roots(prog, pf, op, transparent, depth + 1):
                out.append((pfn, Origin(po.kind, po.ref, po.proj + rest)))
        else:
            out.append((fn, o))
    return out


def describe_origin(fn, o):
    if o.kind == "param":
        return "param %s%s" % (fn.local_name(o.ref), "".join(field_path_str(o.proj)))
    if o.kind == "call":
        return "result of %s (L%d)%s" % (o.ref.best, o.ref.line, "".join(field_path_str(o.proj)))
    if o.kind == "const":
        return "const %s" % (o.ref.get("v") or o.ref.get("fn"))
    if o.kind == "static":
        return "static %s" % o.ref
    if o.kind == "agg":
        return "aggregate %s" % (o.ref[2][1].get("adt") or o.ref[2][1].get("k"))
    if o.kind == "local":
        return "local %s" % fn.local_name(o.ref)
    return o.kind


def field_path_str(proj):
    out = []
    for p in proj:
        if p.startswith("."):
            out.append("." + p[1:].split("|")[0])
        elif p.startswith("()"):
            out.append("." + p[2:] + "()")
    return out


def same_object(r1, r2):
    """two (fn, Origin) roots denote the same base object (same param / same call result)"""
    (f1, o1), (f2, o2) = r1, r2
    if f1 is not f2 or o1.kind != o2.kind:
        return False
    if o1.kind == "param":
        return o1.ref == o2.ref
    if o1.kind == "call":
        return o1.ref is o2.ref
    if o1.kind == "local":
        return o1.ref == o2.ref
    return False


INF = float("inf")


def call_count_range(prog, fn, pred, stop_block=None, _stack=()):
    """(min, max) number of calls satisfying `pred(call)` on any CFG path of `fn` from entry to
    `stop_block` (exclusive; default: any return), inlining resolved workspace callees.
    max = inf when a counted call sits on a cycle."""
    weights = {}
    for c in fn.calls:
        if pred(c):
            weights[c.bb] = (1, 1)
            continue
        tg = prog.call_targets(c)
        if len(tg) == 1 and tg[0] not in _stack and tg[0] != fn.id:
            callee = prog.fns[tg[0]]
            w = call_count_range(prog, callee, pred, None, _stack + (fn.id,))
            if w != (0, 0):
                weights[c.bb] = w
        elif len(tg) > 1:
            ws = [call_count_range(prog, prog.fns[t], pred, None, _stack + (fn.id,)) for t in tg if t not in _stack and t != fn.id]
            if ws:
                w = (min(x[0] for x in ws), max(x[1] for x in ws))
                if w != (0, 0):
                    weights[c.bb] = w
    if stop_block is None:
        targets = set(fn.return_blocks())
    else:
        targets = {stop_block}
    # blocks that can reach a target
    can = set()
    for b in fn.live_blocks:
        if b in targets or (fn.reachable_from(b) & targets):
            can.add(b)
    if 0 not in can:
        return (0, 0)
    loops = fn.loop_blocks()
    memo = {}

    def go(b, onpath):
        if b in targets and stop_block is not None:
            return (0, 0)
        if b in memo:
            return memo[b]
        w = weights.get(b, (0, 0))
        if b in loops and w[1] > 0:
            w = (w[0], INF)
        if b in targets:
            memo[b] = w
            return w
        best = None
        for s in fn.succ[b]:
            if s not in can or s in onpath:
                continue
            r = go(s, onpath | {b})
            best = r if best is None else (min(best[0], r[0]), max(best[1], r[1]))
        if best is None:
            best = (0, 0)
        res = (w[0] + best[0], w[1] + best[1])
        memo[b] = res
        return res

    return go(0, frozenset())


def closure_consumer(prog, closure_fn):
    """The call in the parent function that receives closure `closure_fn` as an argument:
    returns (parent_fn, Call, arg_index) or None."""
    parent = prog.fns.get(closure_fn.parent) or getattr(prog, "inlined_fns", {}).get(closure_fn.parent)
    if parent is None:
        return None
    for c in parent.calls:
        for i, a in enumerate(c.args):
            for o in parent.trace_operand(a):
                if o.kind == "agg" and o.ref[2][1].get("def") == closure_fn.id:
                    return parent, c, i
                if o.kind == "const" and o.ref.get("closure") == closure_fn.id:
                    return parent, c, i
    return None


def self_switches(fn, enum_pat=None, param=1):
    """switch blocks over the discriminant of a place rooted at parameter `param`"""
    out = []
    rx = re.compile(enum_pat) if enum_pat else None
    for bi in sorted(fn.live_blocks):
        si = fn.switch_info(bi)
        if not si or not si.get("enum") or si["place"] is None:
            continue
        if rx and not rx.search(si["enum"]):
            continue
        roots = fn.trace_place(si["place"])
        if any(o.kind == "param" and o.ref == param for o in roots):
            out.append((bi, si))
    return out


def arm_blocks(fn, si):
    """variant -> blocks reachable from that arm's target and from no differently-targeted arm"""
    arms = si["arms"]
    reach = {v: fn.reachable_from(t) for v, t in arms.items()}
    out = {}
    for v, t in arms.items():
        others = set()
        for v2, t2 in arms.items():
            if t2 != t:
                others |= reach[v2]
        out[v] = reach[v] - others
    return out


def closures_created_in(prog, fn, blocks):
    out = []
    for bi in blocks:
        for s in fn.blocks[bi]["s"]:
            if s[0] == "A" and s[2][0] == "agg" and s[2][1].get("k") in ("closure", "coroutine"):
                g = prog.fns.get(s[2][1]["def"])
                if g:
                    out.append(g)
    return out


def calls_in(prog, fn, blocks, with_closures=True, _depth=0):
    """calls located in `blocks` of fn, plus all calls of closures created there (recursively)"""
    out = [c for c in fn.calls if c.bb in blocks]
    if with_closures and _depth < 5:
        for g in closures_created_in(prog, fn, blocks):
            out.extend(calls_in(prog, g, g.live_blocks, True, _depth + 1))
    return out


def receiver_roots(prog, fn, operand, transparent=None, depth=0):
    """ultimate_roots, additionally walking from a closure's own argument (param >= 2) to the
    receiver of the iterator/Option adaptor the closure was handed to in the parent."""
    tr = transparent or (TRANSPARENT | {"inner", "values", "keys", "iter", "flat_map", "map", "filter_map", "find_map", "any", "all", "try_for_each", "for_each", "into_iter", "next"})
    out = []
    for f, o in ultimate_roots(prog, fn, operand, tr):
        if f.is_closure and o.kind == "param" and o.ref >= 2 and depth < 6:
            cons = closure_consumer(prog, f)
            if cons:
                pf, pc, ai = cons
                if pc.args and ai != 0:
                    for r in receiver_roots(prog, pf, pc.args[0], tr, depth + 1):
                        out.append((r[0], Origin(r[1].kind, r[1].ref, r[1].proj + ("()item",))))
                    continue
        out.append((f, o))
    return out


def ok_blocks(fn, variant="Ok"):
    """blocks that assign Result::<variant>(..) / Option::<variant> to the return place"""
    out = []
    for bi in fn.live_blocks:
        for s in fn.blocks[bi]["s"]:
            if s[0] == "A" and s[1][0] == 0 and not s[1][1] and s[2][0] == "agg" and s[2][1].get("variant") == variant:
                out.append(bi)
    return out


def proj_variants(proj):
    return [p[1:] for p in proj if p.startswith("@")]


def option_arms(fn, call):
    """Where control goes depending on whether the Option/Result returned by `call` is
    None/Err ('none') or Some/Ok ('some'): looks at direct `match`/`if let` switches on the result
    and at `?` (Try::branch + ControlFlow switch).  Re-tests of the same discriminant that are dominated by an earlier
    test (drop elaboration re-switches on an already known variant) are ignored.
    Returns {'none': [bb…], 'some': [bb…], 'switches': n}."""
    found = []  # (switch block, none target, some target)
    branch_calls = []
    for c in fn.calls:
        if c.name == "branch" and c.args and any(o.kind == "call" and o.ref is call and not o.proj for o in fn.trace_operand(c.args[0])):
            branch_calls.append(c)
    for bi in sorted(fn.live_blocks):
        si = fn.switch_info(bi)
        if not si or not si.get("enum") or si["place"] is None:
            continue
        roots = fn.trace_place(si["place"])
        en = si["enum"]
        if any(o.kind == "call" and o.ref is call and not [p for p in o.proj if p != "*" and p != "&"] for o in roots):
            if en.startswith("core::option::Option"):
                found.append((bi, si["arms"].get("None"), si["arms"].get("Some")))
            elif en.startswith("core::result::Result"):
                found.append((bi, si["arms"].get("Err"), si["arms"].get("Ok")))
        for bc in branch_calls:
            if any(o.kind == "call" and o.ref is bc and not o.proj for o in roots) and "ControlFlow" in en:
                found.append((bi, si["arms"].get("Break"), si["arms"].get("Continue")))
    # predicate form: `if call().is_err() {…}` / `.is_none()` / `.is_ok()` / `.is_some()` — a bool switch on the predicate's result
    for c in fn.calls:
        if c.name in ("is_err", "is_none", "is_ok", "is_some") and c.args and c.bb in fn.live_blocks and \
                any(o.kind == "call" and o.ref is call and not [p for p in o.proj if p not in ("*", "&")] for o in fn.trace_operand(c.args[0])):
            ba = bool_arms(fn, c)
            if ba:
                neg = c.name in ("is_err", "is_none")
                found.append((c.bb, ba["true"] if neg else ba["false"], ba["false"] if neg else ba["true"]))
    first = [x for x in found if not any(y[0] != x[0] and fn.dominates(y[0], x[0]) for y in found)]
    return {"none": [x[1] for x in first if x[1] is not None], "some": [x[2] for x in first if x[2] is not None], "switches": len(first)}


def assigns_ret_variant(fn, blocks, variant):
    """blocks (subset) in which `_0 = <variant>(..)` is assigned (Option/Result aggregate)"""
    out = []
    for bi in blocks:
        for s in fn.blocks[bi]["s"]:
            if s[0] == "A" and s[1][0] == 0 and not s[1][1] and s[2][0] == "agg" and s[2][1].get("variant") == variant:
                out.append(bi)
    return out


def bool_arms(fn, call):
    """targets of the switch on the bool returned by `call` (possibly through `!`):
    returns {'true': bb, 'false': bb} or None"""
    for bi in sorted(fn.live_blocks):
        si = fn.switch_info(bi)
        if not si or "true" not in si["arms"]:
            continue
        neg = False
        origins = fn.trace_operand(si["op"])
        for o in origins:
            cur = o
            # look through `Not`
            while cur.kind == "op" and cur.ref[2][0] == "un" and cur.ref[2][1] == "Not":
                neg = not neg
                inner = fn.trace_operand(cur.ref[2][2])
                cur = inner[0] if inner else cur
                if cur.kind != "op":
                    break
            if cur.kind == "call" and cur.ref is call:
                t, f = si["arms"]["true"], si["arms"]["false"]
                return {"true": f if neg else t, "false": t if neg else f, "switch": bi}
    return None


def path_avoiding(fn, start, avoid, targets):
    """is some block of `targets` reachable from `start` without entering any block of `avoid`?"""
    blocks = fn.reachable_from(start, stop=list(avoid))
    return bool(set(targets) & blocks)


ITER_WALK = {"next", "next_back", "peek", "into_iter", "iter", "by_ref", "zip", "chain", "all", "any", "map", "filter", "filter_map", "skip",
             "skip_while", "take", "take_while", "step_by", "enumerate", "rev", "peekable", "find", "find_map", "position", "flat_map",
             "for_each", "try_for_each", "fold", "cloned", "copied", "map_while", "inspect", "fuse", "flatten", "last", "nth", "collect"}
TWO_SIDED = {"zip", "chain"}


def iter_chain(prog, fn, operand, depth=0, seen=None):
    """Walk from a value that was produced by an iterator pipeline (an item yielded by next(), a closure's own argument, a tuple
    of a zip) back to the pipeline's sources.  Returns (adaptors, leaves): every iterator call passed on the way as (fn, Call)
    and the non-iterator origins the pipeline starts from as (fn, Origin).  Unlike deep_roots this follows BOTH operands of
    zip/chain and leaves closures through the consumer they were handed to."""
    if seen is None:
        seen = set()
    adaptors, leaves = [], []
    for f, o in ultimate_roots(prog, fn, operand, {"deref", "deref_mut", "clone", "borrow", "as_ref", "as_mut", "unwrap", "expect", "branch"}):
        if o.kind == "call" and o.ref.name in ITER_WALK and depth < 16:
            c = o.ref
            key = (f.id, c.bb)
            if key in seen:
                continue
            seen.add(key)
            adaptors.append((f, c))
            for a in c.args[:2] if c.name in TWO_SIDED else c.args[:1]:
                a2, l2 = iter_chain(prog, f, a, depth + 1, seen)
                adaptors += a2
                leaves += l2
        elif f.is_closure and o.kind == "param" and o.ref >= 2 and depth < 16:
            cons = closure_consumer(prog, f)
            if cons and cons[2] != 0 and cons[1].args:
                pf, pc, ai = cons
                key = (pf.id, pc.bb)
                if key not in seen:
                    seen.add(key)
                    adaptors.append((pf, pc))
                    for a in pc.args[:2] if pc.name in TWO_SIDED else pc.args[:1]:
                        a2, l2 = iter_chain(prog, pf, a, depth + 1, seen)
                        adaptors += a2
                        leaves += l2
            else:
                leaves.append((f, o))
        else:
            leaves.append((f, o))
    return adaptors, leaves


def loop_of(f, bb):
    """natural loop with header bb (the block calling next()): header + every block that reaches a back-edge source
    without passing through the header"""
    backs = [p for p in f.pred[bb] if p in f.dom and bb in f.dom[p]]
    body = {bb}
    st = list(backs)
    while st:
        b = st.pop()
        if b in body:
            continue
        body.add(b)
        st.extend(p for p in f.pred[b] if p in f.live_blocks)
    return body


def loops_reaching(f, emit_names):
    """For every loop of `f` that is driven by an Iterator::next() call and whose body calls one of `emit_names`:
    (next Call, emit Calls in the innermost such loop, skipping Some-arm targets).  'skipping' lists the Some-arm targets from
    which the loop head is reachable again WITHOUT passing any emit call — i.e. an item can be dropped on the floor."""
    out = []
    nexts = [c for c in f.calls if c.name == "next" and "Iterator" in (c.callee.get("trait") or "") and f.in_loop(c.bb) and c.bb in f.live_blocks]
    bodies = {id(c): loop_of(f, c.bb) for c in nexts}
    for c in nexts:
        body = bodies[id(c)]
        # emits whose innermost enclosing next-loop is this one
        emits = []
        for e in f.calls:
            if e.name in emit_names and e.bb in body and e.bb in f.live_blocks:
                inner = [c2 for c2 in nexts if c2 is not c and e.bb in bodies[id(c2)] and bodies[id(c2)] < body]
                if not inner:
                    emits.append(e)
        if not emits:
            continue
        arms = option_arms(f, c)
        skipping = [s for s in arms["some"] if path_avoiding(f, s, [e.bb for e in emits], [c.bb])]
        out.append((c, emits, skipping, bool(arms["some"])))
    return out


DROPPING_ITER = {"filter", "filter_map", "skip", "skip_while", "take", "take_while", "step_by", "map_while", "find", "find_map", "nth", "last",
                 "flat_map", "flatten", "position", "next_back", "rev", "dedup", "dedup_by", "dedup_by_key", "retain", "truncate", "drain", "pop"}


RANGE_TR = TRANSPARENT | {"range", "deref", "map_or", "is_some_and", "is_none_or", "map_or_else", "map", "unwrap_or", "unwrap_or_default", "filter", "and_then"}


def range_tags(prog, f, op, depth=0):
    """{'start', 'end'} ⊇ which end(s) of a byte range a value can come from: a `.start` / `.end` field of a Range (also of the range
    returned by `range()`), looked up through Option adaptors, closure parameters (to the receiver of the adaptor the closure was
    handed to), closure captures and — for a variable captured by a closure — through the values stored into it inside that
    closure (`prev_end = Some(range.end)`)."""
    out = set()
    if op[0] == "k" or depth > 6:
        return out
    for o in deep_roots(prog, f, op, RANGE_TR):
        fp = field_path(o.proj)
        if fp and fp[-1] in ("start", "end"):
            out.add(fp[-1])
            continue
        if o.kind == "agg" and o.ref[2][1].get("variant") == "Some" and o.ref[2][2]:
            out |= range_tags(prog, f, o.ref[2][2][0], depth + 1)
        elif o.kind == "local":
            for d in f.defs.get(o.ref, []):
                if d[0] == "assign" and d[3][0] == "use":
                    out |= range_tags(prog, f, d[3][1], depth + 2)
        elif o.kind == "param" and f.is_closure and o.ref == 1:
            slot = None
            for p in o.proj:
                if p.startswith(".") and p[1:].split("|")[0].isdigit():
                    slot = p[1:].split("|")[0]
                    break
            if slot is not None:
                # values stored into the captured variable inside this closure
                def is_slot(pl):
                    if "*" not in pl[1]:
                        return False
                    if pl[0] == 1:
                        return any(p.startswith("." + slot + "|") or p == "." + slot for p in pl[1])
                    # a store through a temporary that holds the captured reference: `_t = (*_1).k; (*_t) = …`
                    return any(o2.kind == "param" and o2.ref == 1 and any(p.startswith("." + slot + "|") or p == "." + slot for p in o2.proj) for o2 in f.trace_local(pl[0]))
                for bi in f.live_blocks:
                    for st in f.blocks[bi]["s"]:
                        if st[0] == "A" and is_slot(st[1]):
                            rv = st[2]
                            for x in (rv[2] if rv[0] == "agg" else [rv[1]] if rv[0] == "use" else []):
                                out |= range_tags(prog, f, x, depth + 1)
                cap = capture_origin(prog, f, o)
                if cap:
                    pf, op2, rest = cap
                    rfp = field_path(rest)
                    if rfp and rfp[-1] in ("start", "end"):
                        out.add(rfp[-1])
                    else:
                        out |= range_tags(prog, pf, op2, depth + 1)
        elif o.kind == "param" and f.is_closure and o.ref >= 2:
            cons = closure_consumer(prog, f)
            if cons and cons[2] != 0 and cons[1].args:
                out |= range_tags(prog, cons[0], cons[1].args[0], depth + 1)
    return out


def overlap_tests(prog, crates):
    """comparisons of a range start with an earlier range end (overlap filters over byte ranges).  Returns
    [(fn, line, op, 'start OP end' normalised operator, strict_ok)] — with half-open ranges the boundary must separate
    start < end (overlap) from start >= end (adjacent or later)."""
    out = []
    flip = {"Lt": "Gt", "Gt": "Lt", "Le": "Ge", "Ge": "Le"}
    for f in sorted(prog.fns.values(), key=lambda f: f.id):
        if f.crate not in crates:
            continue
        for bi in sorted(f.live_blocks):
            for s in f.blocks[bi]["s"]:
                if s[0] == "A" and s[2][0] == "bin" and s[2][1] in flip:
                    a, b = range_tags(prog, f, s[2][2]), range_tags(prog, f, s[2][3])
                    op = None
                    if "start" in a and "end" in b and "end" not in a:
                        op = s[2][1]
                    elif "end" in a and "start" in b and "end" not in b:
                        op = flip[s[2][1]]
                    if op is None:
                        continue
                    out.append((f, s[3], s[2][1], op, op in ("Lt", "Ge")))
    return out


def value_sources(prog, f, op, transparent=None, depth=0, seen=None):
    """Leaf producers of a value, followed interprocedurally through the return values of workspace callees: list of
    (fn, Origin) where a `call` origin is a call that is not transparent and has no analysable workspace body."""
    tr = transparent or (TRANSPARENT | {"to_string", "into_owned", "to_owned", "deref", "to_vec", "as_ref"})
    if seen is None:
        seen = set()
    out = []
    if op[0] == "k":
        return out
    for ff, o in ultimate_roots(prog, f, op, tr):
        if o.kind == "call" and depth < 5:
            tg = [t for t in prog.call_targets(o.ref) if t in prog.fns]
            if len(tg) == 1 and (tg[0], "ret") not in seen and prog.fns[tg[0]].crate.startswith("ast_grep") and not o.proj:
                g = prog.fns[tg[0]]
                seen.add((tg[0], "ret"))
                sub = []
                for bi in sorted(g.live_blocks):
                    for st in g.blocks[bi]["s"]:
                        if st[0] == "A" and st[1][0] == 0 and not st[1][1] and st[2][0] == "use":
                            sub += value_sources(prog, g, st[2][1], tr, depth + 1, seen)
                    c = g.call_at(bi)
                    if c is not None and c.dest and c.dest[0] == 0 and not c.dest[1]:
                        if c.name in tr and c.args:
                            sub += value_sources(prog, g, c.args[0], tr, depth + 1, seen)
                        else:
                            sub.append((g, Origin("call", c, ())))
                if sub:
                    out += sub
                    continue
        out.append((ff, o))
    return out


def effective_arms(f, si):
    """variant -> block where the code for that variant really starts: sees through the `matches!(x, V)` idiom, where every arm only
    stores a constant bool and jumps to one common block that switches on that bool"""
    out = {}
    for v, t in si["arms"].items():
        out[v] = t
        b = f.blocks[t]
        if b["t"][0] != "goto" or len(b["s"]) != 1:
            continue
        st = b["s"][0]
        if not (st[0] == "A" and not st[1][1] and st[2][0] == "use" and st[2][1][0] == "k" and st[2][1][1].get("ty") == "bool"):
            continue
        j = b["t"][1]
        jt = f.blocks[j]["t"]
        if jt[0] != "switch" or f.blocks[j]["s"] or jt[1][0] == "k" or jt[1][1][0] != st[1][0] or jt[1][1][1]:
            continue
        val = "1" if st[2][1][1].get("v") == "true" else "0"
        tgt = None
        for sv, st_ in jt[2]:
            if str(sv) == val:
                tgt = st_
        out[v] = tgt if tgt is not None else jt[3]
    return out


TRY_ARM = {"Ok": "Continue", "Some": "Continue", "Err": "Break", "None": "Break"}


def reach_with_variants(f, start, stop=()):
    """blocks reachable from `start` (not expanding `stop`), pruning the arms that are infeasible because the switched-on value was, on
    this very path, constructed as a known enum variant: `x = Err(..)` … `match Try::branch(x) { Continue => …, Break => … }` only takes
    Break.  Per-path state local -> variant name; an assignment or call writing a local forgets it; state sets are joined per block by
    exploring (block, state) pairs (bounded)."""
    stop = set(stop)
    seen = set()
    out = set()
    work = [(start, frozenset())]
    steps = 0
    while work and steps < 20000:
        steps += 1
        b, st = work.pop()
        if (b, st) in seen or b in stop:
            if b in stop:
                out.add(b)
            continue
        seen.add((b, st))
        out.add(b)
        state = dict(st)
        blk = f.blocks[b]
        for s_ in blk["s"]:
            if s_[0] != "A":
                continue
            dest, rv = s_[1], s_[2]
            if dest[1]:
                state.pop(dest[0], None) if False else None
                continue
            l = dest[0]
            if rv[0] == "agg" and rv[1].get("variant") and rv[1].get("k") == "adt":
                state[l] = rv[1]["variant"]
            elif rv[0] == "use" and rv[1][0] in ("c", "m") and not rv[1][1][1] and rv[1][1][0] in state:
                state[l] = state[rv[1][1][0]]
            elif rv[0] == "discr" and not rv[1][1] and rv[1][0] in state:
                state[("discr", l)] = state[rv[1][0]]
                state.pop(l, None)
            else:
                state.pop(l, None)
                state.pop(("discr", l), None)
        t = blk["t"]
        succs = list(f.succ[b])
        if t[0] == "call":
            c = f.call_at(b)
            if c is not None and c.dest:
                dl = c.dest[0]
                v = None
                if c.name == "branch" and c.args and c.args[0][0] != "k" and not c.args[0][1][1]:
                    v = TRY_ARM.get(state.get(c.args[0][1][0]))
                elif c.name == "from_residual":
                    ty = f.locals[dl]
                    v = "Err" if ty.startswith("core::result::Result") else ("None" if ty.startswith("core::option::Option") else None)
                state.pop(("discr", dl), None)
                if v:
                    state[dl] = v
                else:
                    state.pop(dl, None)
        elif t[0] == "switch" and t[1][0] != "k" and not t[1][1][1]:
            known = state.get(("discr", t[1][1][0]))
            si = f.switch_info(b)
            if known and si and si.get("enum") and known in si["arms"]:
                succs = [si["arms"][known]]
        nst = frozenset(state.items())
        for s2 in succs:
            work.append((s2, nst))
    return out


def bool_returns_from(f, start, limit=40):
    """possible values ('true'/'false'/'?') of the bool return place when execution starts at block `start`: constant propagation
    through `x = const`, `x = copy y`, `x = Not(y)` along the (branch-free or const-branching) way to the return"""
    out = set()
    work = [(start, ())]
    seen = set()
    n = 0
    while work and n < 400:
        n += 1
        b, st = work.pop()
        if (b, st) in seen:
            continue
        seen.add((b, st))
        env = dict(st)
        for s_ in f.blocks[b]["s"]:
            if s_[0] != "A" or s_[1][1]:
                continue
            l, rv = s_[1][0], s_[2]
            v = None
            if rv[0] == "use":
                if rv[1][0] == "k":
                    v = rv[1][1].get("v") if rv[1][1].get("ty") == "bool" else None
                elif not rv[1][1][1]:
                    v = env.get(rv[1][1][0])
            elif rv[0] == "un" and rv[1] == "Not" and rv[2][0] != "k" and not rv[2][1][1]:
                x = env.get(rv[2][1][0])
                v = {"true": "false", "false": "true"}.get(x)
            if v is None:
                env.pop(l, None)
            else:
                env[l] = v
        t = f.blocks[b]["t"]
        if t[0] == "ret":
            out.add(env.get(0, "?"))
            continue
        succs = list(f.succ[b])
        if t[0] == "switch" and t[1][0] != "k" and not t[1][1][1] and env.get(t[1][1][0]) in ("true", "false"):
            si = f.switch_info(b)
            if si and "true" in si["arms"]:
                succs = [si["arms"][env[t[1][1][0]]]]
        for s2 in succs:
            work.append((s2, tuple(sorted(env.items()))))
    return out


def must_pass(f, through, goal):
    """every feasible path (see reach_with_variants) from the entry to block `goal` passes one of the blocks `through`"""
    through = [b for b in through if b != goal]
    if goal in through or not through:
        return goal in through
    r = reach_with_variants(f, 0, stop=through)
    return goal not in r


IDENTITY_CALLS = TRANSPARENT | {"from_utf8", "from_utf8_lossy", "from_utf8_unchecked", "into_boxed_str", "into_string", "as_bytes", "to_vec", "into_bytes", "as_mut_str", "index"}


def identity_flow(prog, f, op, is_terminal, ident=None, limit=14):
    """Follow the value of `op` backwards through identity conversions only.  Returns (terminals, foreign): the origins accepted by
    `is_terminal(fn, origin)` and the names of everything else the value passes through (calls that compute a new value, parameters)."""
    ident = ident or IDENTITY_CALLS
    terms, foreign, seen = [], [], set()

    def walk(o_p, depth):
        if o_p[0] == "k" or depth > limit:
            return
        for o in f.trace_operand(o_p):
            k = (o.kind, o.ref if isinstance(o.ref, (int, str)) else id(o.ref), tuple(map(str, o.proj)))
            if k in seen:
                continue
            seen.add(k)
            if is_terminal(f, o):
                terms.append(o)
            elif o.kind == "call":
                if o.ref.name in ident and o.ref.args:
                    walk(o.ref.args[0], depth + 1)
                else:
                    foreign.append(o.ref.name)
            elif o.kind == "agg":
                for sub in o.ref[2][2]:
                    walk(sub, depth + 1)
            elif o.kind == "param":
                foreign.append("parameter %s%s" % (f.local_name(o.ref), "".join(p for p in map(str, o.proj) if p.startswith("."))[:40]))
            elif o.kind == "const":
                foreign.append("constant")
            elif o.kind == "op":
                foreign.append("arithmetic (%s)" % (o.ref[2][1] if len(o.ref[2]) > 1 else o.ref[2][0]))
    walk(op, 0)
    return terms, foreign
