"""Thorough-tier self-test of the checker: every seeded/mutant patch that targets a property must be reported by that
property's rules (naming the expected instance), and every benign refactor must stay silent.  Each patch is applied to a scratch
copy of /repo's current working tree (outside /repo and /verif), facts are extracted from the copy with the same driver, and the
copy is removed immediately afterwards."""
import importlib
import json
import os
import shutil
import subprocess
import sys
import tempfile
import time

from . import core, extract, facts

VERIF = extract.VERIF
INDEX = os.path.join(VERIF, "mutants", "index.json")


def scratch_copy(repo):
    d = tempfile.mkdtemp(prefix="sgverif-scratch-")
    dst = os.path.join(d, "repo")
    subprocess.check_call(["rsync", "-a", "--exclude", "target", "--exclude", ".git", "--exclude", "node_modules", repo + "/", dst + "/"])
    return d, dst


def apply_patch(dst, patch):
    r = subprocess.run(["git", "apply", "--whitespace=nowarn", patch], cwd=dst, stdout=subprocess.PIPE, stderr=subprocess.STDOUT, text=True)
    return r.returncode == 0, r.stdout


def violations_for(pid, prog, tier="quick"):
    mod = importlib.import_module("sgcheck.rules." + pid.lower())
    ctx = core.Ctx(pid, tier, prog)
    try:
        mod.run(ctx)
    except facts.AnchorError as e:
        ctx.ob("anchor", "anchor", False, "fail closed: %s" % e, nontrivial=False)
    except Exception as e:
        ctx.ob("anchor", "rule could not be evaluated", False, "fail closed: %s: %s" % (type(e).__name__, e), nontrivial=False)
    known = {k["key"] for k in core.load_known() if k["property"] == pid and k["status"] == "known"}
    return [v for v in ctx.violations if v["key"] not in known]


def run_entries(ctx, pid):
    """run the mutants/benign patches registered for property pid; add obligations to ctx"""
    if not os.path.exists(INDEX):
        ctx.note("no mutants/index.json")
        return
    with open(INDEX) as fh:
        idx = json.load(fh)
    entries = [e for e in idx["entries"] if pid in e["properties"]]
    killed = total = 0
    for e in entries:
        patch = os.path.join(VERIF, e["patch"])
        t0 = time.time()
        d, dst = scratch_copy(extract.REPO)
        try:
            ok, out = apply_patch(dst, patch)
            if not ok:
                ctx.note("selftest %s: patch no longer applies to the current tree, skipped (%s)" % (e["id"], out.strip()[:120]))
                continue
            try:
                fdir = extract.extract(repo=dst, config="default")
            except SystemExit as ex:
                ctx.note("selftest %s: patched copy does not compile, skipped (%s)" % (e["id"], ex))
                continue
            prog = facts.Program(fdir)
            vs = violations_for(pid, prog)
            keys = [v["key"] for v in vs]
            if e["kind"] == "mutant":
                total += 1
                exp = e["expect"][pid] if isinstance(e["expect"], dict) else e["expect"]
                hit = [k for k in keys if exp in k]
                killed += 1 if hit else 0
                ctx.ob("SELFTEST", "mutant %s" % e["id"], bool(hit),
                       ("reported as expected: %s" % hit[0]) if hit else "NOT reported: expected a violation whose key contains %r, got %s" % (exp, keys[:4]),
                       where=e["patch"], nontrivial=True, facts={"wall_s": round(time.time() - t0, 1)})
            else:
                ctx.ob("SELFTEST", "benign %s" % e["id"], not keys, "behaviour-preserving refactor stays silent" if not keys else "FALSE ALARM on a behaviour-preserving refactor: %s" % keys[:4],
                       where=e["patch"], nontrivial=True)
        finally:
            shutil.rmtree(d, ignore_errors=True)
    ctx.extra["mutants_killed"] = killed
    ctx.extra["mutants_total"] = total
