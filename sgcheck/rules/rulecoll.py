"""Invariants of `RuleCollection`, the object every scanning front end selects its rules from.  Shared by C01 (one rule or many), C09
(all front ends list the same findings) and C11 (turned-off rules never reach the printers' `unreachable!`).

  RC1  try_new stores a rule (tenured bucket or contingent list) only on the not-`Severity::Off` side of a test of its severity.
  RC2  readers take the FIRST bucket of a language (get_rule_from_lang breaks out of its loop), so the writer keeps buckets unique:
       add_tenured_rule opens a new bucket only after a search over ALL existing buckets missed.
  RC3  every method that answers for the whole collection visits both storages (`tenured` and `contingent`): an accessor that reads
       only one of them silently forgets the path-scoped (or the unscoped) rules.
"""
import json
import re

from ..query import deep_roots, TRANSPARENT, option_arms, bool_arms, field_path, effective_arms, iter_chain, closure_consumer, bool_returns_from

RC = r"^ast_grep_config::rule_collection::RuleCollection::<L>::"
SEARCHES = {"next", "find", "find_map", "position", "any", "rposition"}


def _stores(prog, f):
    """calls in f that put a rule into one of the two storages"""
    out = []
    for c in f.calls:
        if c.bb not in f.live_blocks or not c.args or c.args[0][0] == "k":
            continue
        ty = f.locals[c.args[0][1][0]]
        if c.name == "push" and ("ContingentRule" in ty or "RuleBucket" in ty) and "Vec<" in ty:
            out.append(c)
        elif c.name == "add" and "RuleBucket" in ty:
            out.append(c)
        else:
            tg = prog.call_targets(c)
            if len(tg) == 1 and tg[0] in prog.fns and re.search(RC, tg[0]) and any(
                    c2.name in ("push", "add") and c2.args and c2.args[0][0] != "k" and "RuleBucket" in prog.fns[tg[0]].locals[c2.args[0][1][0]]
                    for c2 in prog.fns[tg[0]].calls):
                out.append(c)
    return out


def rc1(ctx, rid):
    prog = ctx.prog
    tn0 = ctx.anchor(rid, RC + "try_new$")
    if not tn0:
        return
    tn = prog.inlined(tn0)
    stores = _stores(prog, tn)
    ctx.floor(rid, "RuleCollection::try_new storing sites", len(stores), 2)
    sws = []
    for bi in sorted(tn.live_blocks):
        si = tn.switch_info(bi)
        if si and si.get("enum") and si["enum"].endswith("rule_config::Severity") and "Off" in si["arms"]:
            sws.append((bi, si))
    heads = [c.bb for c in tn.calls if c.name == "next" and tn.in_loop(c.bb)]
    # alternative: the rules come out of an iterator pipeline with a `filter` whose predicate is false for Severity::Off
    filtered_loops = []
    for c in tn.calls:
        if c.name != "next" or not tn.in_loop(c.bb) or not c.args:
            continue
        ad, _ = iter_chain(prog, tn, c.args[0])
        for ff, a in ad:
            if a.name != "filter":
                continue
            for g in prog.closures_of(ff):
                cons = closure_consumer(prog, g)
                if not cons or not (cons[1] is a or (cons[1].name == a.name and cons[1].line == a.line and cons[0].id == ff.id)):
                    continue
                for bi in sorted(g.live_blocks):
                    si = g.switch_info(bi)
                    if si and si.get("enum") and si["enum"].endswith("rule_config::Severity") and "Off" in si["arms"]:
                        if bool_returns_from(g, si["arms"]["Off"]) == {"false"}:
                            filtered_loops.append(c)
    for n, s in enumerate(stores):
        ok = any(tn.dominates(sb, s.bb) for c in filtered_loops for sb in option_arms(tn, c)["some"])
        for bi, si in sws:
            ea = effective_arms(tn, si)
            off = ea["Off"]
            others = {t for v, t in ea.items() if v != "Off"}
            if off in others:
                continue
            if tn.dominates(bi, s.bb) and s.bb not in set(tn.reachable_from(off, stop=heads)):
                ok = True
        ctx.ob(rid, "RuleCollection::try_new/store#%d (%s) only for rules that are not turned off" % (n, s.name), ok,
               "dominated by a test of the rule's severity and unreachable from its Off arm" if ok else
               "a rule is stored in the collection on a path that did not exclude `severity: off` (%s at %s): turned-off rules are scanned — the terminal printer panics at "
               "`unreachable!(\"turned-off rule should not have match\")` and --json lists their matches" % (s.name, tn.loc(s.line)), where=tn0.loc())


def rc2(ctx, rid):
    prog = ctx.prog
    # reader: does it stop at the first bucket of the language?
    rd0 = ctx.anchor(rid, RC + "get_rule_from_lang$")
    tn0 = prog.find_fns(RC + "try_new$")
    if not rd0 or len(tn0) != 1:
        return
    rd = prog.inlined(rd0)
    first_only = True
    nx = [c for c in rd.calls if c.name == "next" and rd.in_loop(c.bb) and c.args and
          any(o.kind == "param" and "tenured" in field_path(o.proj) for o in deep_roots(prog, rd, c.args[0], TRANSPARENT | {"iter", "into_iter"}))]
    if nx:
        # a loop over the buckets: does an iteration that found the language continue with the next bucket (accumulating), or leave the loop?
        c = nx[0]
        arms = option_arms(rd, c)
        ext = [c2 for c2 in rd.calls if c2.name in ("extend", "push", "append", "extend_from_slice") and rd.in_loop(c2.bb) and
               any(rd.dominates(sb, c2.bb) for sb in arms["some"])]
        if ext:
            first_only = False
    # writer
    w0 = prog.find_fns(RC + "add_tenured_rule$")
    w = prog.inlined(w0[0]) if len(w0) == 1 else prog.inlined(tn0[0])
    newb = [c for c in w.calls if c.bb in w.live_blocks and c.name == "push" and c.args and c.args[0][0] != "k" and "Vec<" in w.locals[c.args[0][1][0]] and "RuleBucket" in w.locals[c.args[0][1][0]]]
    ctx.floor(rid, "sites opening a new language bucket", len(newb), 1)
    if not first_only:
        ctx.ob(rid, "RuleCollection/one bucket per language", True, "get_rule_from_lang accumulates over all buckets of the language: uniqueness is not needed", where=rd0.loc(), nontrivial=False)
        return
    for n, p in enumerate(newb):
        ok = False
        why = "no search over the existing buckets dominates the push"
        for c in w.calls:
            if c.name not in SEARCHES or not c.args or c.bb not in w.live_blocks:
                continue
            roots = deep_roots(prog, w, c.args[0], TRANSPARENT | {"iter", "iter_mut", "into_iter"})
            same = {(o.kind, o.ref if isinstance(o.ref, (int, str)) else id(o.ref)) for o in roots} & \
                   {(o.kind, o.ref if isinstance(o.ref, (int, str)) else id(o.ref)) for o in deep_roots(prog, w, p.args[0], TRANSPARENT)}
            if not same:
                continue
            if c.name == "any":
                ba = bool_arms(w, c)
                miss = [ba["false"]] if ba else []
            else:
                miss = option_arms(w, c)["none"]
            if any(w.dominates(m, p.bb) or m == p.bb for m in miss):
                ok = True
                why = "the push is dominated by the miss arm of `%s` over the same bucket vector (every bucket was compared)" % c.name
        ctx.ob(rid, "RuleCollection/one bucket per language#%d" % n, ok,
               why if ok else
               "get_rule_from_lang hands out only the first bucket of a language, but a new bucket is opened without an exhaustive search of the existing ones (%s): "
               "with rules loaded in the language order A, B, A the later A-rules sit in a second bucket that no scan ever sees" % why, where=(w0[0] if w0 else tn0[0]).loc())


def rc3(ctx, rid):
    prog = ctx.prog
    ms = [f for f in prog.find_fns(RC) if not f.is_closure]
    ctx.floor(rid, "RuleCollection methods", len(ms), 6)
    n = 0
    T, C = ".tenured|ast_grep_config::rule_collection::RuleCollection", ".contingent|ast_grep_config::rule_collection::RuleCollection"
    # every function that reads a storage field — the methods of RuleCollection and, after canonicalisation (a new accessor is spliced
    # into its callers), whoever calls a new one
    for f in sorted(prog.fns.values(), key=lambda f: f.id):
        if f.is_closure or not f.crate.startswith("ast_grep"):
            continue
        own = "".join(json.dumps(f.blocks[b]) for b in f.live_blocks)
        if T not in own and C not in own and not re.search(RC, f.id):
            continue
        txt = "".join(json.dumps(g.blocks) for g in prog.family(f))
        t, c = T in txt, C in txt
        if not (t or c):
            continue
        if re.search(RC, f.id) and (f.nargs < 1 or "RuleCollection" not in f.locals[1]):
            continue   # helpers that work on one storage handed in by the caller
        n += 1
        name = f.id.rsplit("::", 1)[-1] if re.search(RC, f.id) else f.id
        ctx.ob(rid, "RuleCollection::%s visits both storages" % name if re.search(RC, f.id) else "%s reads both storages of the RuleCollection" % name, t and c,
               "reads `tenured` and `contingent`" if t and c else
               "answers for the collection from `%s` only: %s rules are forgotten (e.g. the walker's language filter then skips the files of a language whose rules are all path-scoped)"
               % ("tenured" if t else "contingent", "path-scoped (files/ignores)" if t else "unscoped"), where=f.loc())
    ctx.floor(rid, "whole-collection accessors", n, 4)


def rc4(ctx, rid):
    """every rule document of the project's rule directories is loaded: between parsing a rule file and the returned list nothing is
    filtered out (a 'load each id once' filter keeps whichever same-id document the directory walk meets first — the TypeScript or the
    JavaScript flavour of one check — so findings depend on file names and on what else is in the project)"""
    from ..query import DROPPING_ITER
    prog = ctx.prog
    f0 = ctx.anchor(rid, r"^ast_grep::config::read_directory_yaml$")
    if not f0:
        return
    f = f0      # its own body and closures (plus new helpers spliced in by the canonicaliser); `--filter` lives in RuleOverwrite::process_configs
    drops = []
    for g in prog.family(f):
        for c in g.calls:
            if c.bb not in g.live_blocks:
                continue
            if c.name in DROPPING_ITER and "Iterator" in (c.callee.get("trait") or c.best) and c.name not in ("filter_map",):
                drops.append("%s at %s" % (c.name, g.loc(c.line)))
            if c.name in ("retain", "retain_mut", "dedup", "dedup_by", "dedup_by_key", "truncate", "drain", "remove", "swap_remove", "pop") and "Vec" in c.best:
                drops.append("%s at %s" % (c.name, g.loc(c.line)))
    ctx.ob(rid, "read_directory_yaml keeps every rule document it parsed", not drops,
           "no element-dropping step between the parsed rule files and the returned configs" if not drops else
           "rule documents are dropped while the rule directories are read (%s): which same-id document survives depends on the order of the directory walk" % drops[:3], where=f0.loc())


THIN = {"dedup", "dedup_by", "dedup_by_key", "retain", "retain_mut", "truncate", "drain", "remove", "swap_remove", "pop", "clear", "split_off"}


def rc5(ctx, rid):
    """a match that the scan found reaches the front ends: no Vec of NodeMatch / Diff is thinned (dedup, retain, truncate, …) anywhere in
    the scanning crates.  (Overlapping fixes are dropped by the accept loops, which skip while iterating and are checked separately;
    'one report per position' style de-duplication drops the inner matches of left-nested chains, `a.b` inside `a.b.c`.)"""
    prog = ctx.prog
    n = 0
    bad = []
    for f in sorted(prog.fns.values(), key=lambda f: f.id):
        if f.crate not in ("ast_grep_config", "ast_grep", "ast_grep_lsp", "ast_grep_core"):
            continue
        for c in f.calls:
            if c.bb not in f.live_blocks or not c.args or c.args[0][0] == "k":
                continue
            ty = f.locals[c.args[0][1][0]]
            if "Vec<" in ty and ("NodeMatch<" in ty or "::Diff<" in ty):
                n += 1
                if c.name in THIN:
                    bad.append("%s at %s" % (c.name, f.loc(c.line)))
    ctx.floor(rid, "calls on vectors of matches / diffs examined", n, 10)
    ctx.ob(rid, "vectors of matches and diffs are never thinned", not bad,
           "no dedup/retain/truncate/drain/remove on a Vec of NodeMatch or Diff in core, config, cli, lsp" if not bad else
           "matches are removed from a result vector (%s): findings that the rule matches node by node are not reported" % bad[:3])


def invariants(ctx, rid, which=("rc1", "rc2", "rc3", "rc4")):
    if "rc5" in which:
        rc5(ctx, rid)
    if "rc1" in which:
        rc1(ctx, rid)
    if "rc2" in which:
        rc2(ctx, rid)
    if "rc3" in which:
        rc3(ctx, rid)
    if "rc4" in which:
        rc4(ctx, rid)
