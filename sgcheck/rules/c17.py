"""C17 — files are processed independently whatever the schedule: effect analysis from producer entry points."""
import re
from ..query import option_arms, deep_roots, ultimate_roots, describe_origin, TRANSPARENT, field_path

EXPLANATION = (
    "Decided (valid for every schedule, because it is a statement about which code can touch what): R1 no function "
    "reachable from a walker-thread producer (every impl of PathWorker::produce_item / StdInWorker::parse_stdin and the walker "
    "closure of run_worker) writes or mutably borrows a `static mut`, calls the registry's unsynchronised write "
    "(Registration::write) or its callers, changes process-global state (env vars, cwd) or writes files; the only shared effects "
    "are atomic counters, channel sends and stderr — stdout belongs to the single printing thread (println!/stdout() from a producer would drop "
    "text between the records of the structured output). R1b every writer of the `static mut` registries is reachable only from the "
    "start-up path, and in main the set-up call dominates the command dispatch that spawns workers. R2 in run_worker's walker "
    "closure a failed file (Err from produce_item, rejected entry) leads to WalkState::Continue; Quit is only on the failed-send "
    "arm. R3 each produced item is sent exactly once (single send site, fed by the iteration over produce_item's result). "
    "R4 panic sites of FINDING class reachable from producers (a panic there hangs the process) — none may exist. R5 one rejection "
    "authority: which files are skipped for their content (unreadable, empty, non-UTF-8, oversized) is decided by utils::read_file alone — "
    "it is the only reader of file contents reachable from producers, file_too_large has no other caller, and the directory walkers "
    "of the scanning commands are configured only with path/configuration based filters (classified table of every WalkBuilder method); a "
    "metadata- or closure-based walker filter (max_filesize, filter_entry, …) would apply to entries below a root but never to a root "
    "path and with another criterion than read_file, so a tree scan and the scans of its files alone would disagree. R6 no information flows "
    "from one file's processing to another's: the only synchronised shared objects producer-reachable code touches are write-only "
    "commutative counters (Atomic*::fetch_add) and the trace writer (a Mutex around a Write sink whose guard is only written to); any "
    "other Mutex/RwLock/RefCell/Cell/Once* access or atomic load/store/swap in producer-reachable workspace code is a channel through "
    "which the findings of a file can depend on which files were processed before it (memo tables, 'seen' sets, caches)."
)
NOT_DECIDED = (
    "That the union over files equals per-file runs as values; that the `ignore` walker visits each eligible file exactly once; "
    "liveness of the channel/consumer; read-file rejection rules (empty/oversized) as values."
)
TRUSTED = ["ignore::WalkParallel visits each entry once and runs closures on its own threads", "std::sync::mpsc", "call graph over-approximates trait calls by all workspace impls"]

PRODUCER_TRAITS = {"ast_grep::utils::worker::PathWorker": ("produce_item",), "ast_grep::utils::worker::StdInWorker": ("parse_stdin",)}
FORBIDDEN_CALLS = re.compile(
    r"^std::env::(set_var|remove_var|set_current_dir)$"
    r"|^std::fs::(write|remove_file|remove_dir|remove_dir_all|rename|create_dir|create_dir_all|copy)$"
    r"|^std::fs::File::(create|create_new)$|^std::fs::OpenOptions::(write|append|create|truncate)$"
    r"|::Registration::<R>::write$"
    r"|^std::thread::local::LocalKey::<.*>::(with|try_with|with_borrow|with_borrow_mut|set|get|take|replace)$"
    r"|^std::io::stdio::(_print|stdout)$|^std::io::stdio::Stdout::(lock|write|write_all|write_fmt)$"
)


def producer_roots(prog):
    out = []
    for i in prog.impls:
        names = PRODUCER_TRAITS.get(i.get("trait"))
        if names:
            for it in i["items"]:
                if it["name"] in names:
                    out.append(it["id"])
    return out


def static_accesses(prog, f):
    """(kind, static id, line) for uses of mutable statics in f: 'write' (assignment through / &mut of), 'read'"""
    out = []
    ptr_locals = {}
    for bi, b in enumerate(f.blocks):
        for s in b["s"]:
            if s[0] == "A" and s[2][0] == "use" and s[2][1][0] == "k" and "static" in s[2][1][1] and not s[1][1]:
                sid = s[2][1][1]["static"]
                if prog.statics.get(sid, {}).get("mut"):
                    ptr_locals[s[1][0]] = sid
    if not ptr_locals:
        return out

    def base_static(place):
        l = place[0]
        if l in ptr_locals:
            return ptr_locals[l]
        for o in f.trace_local(l):
            if o.kind == "static" and prog.statics.get(o.ref, {}).get("mut"):
                return o.ref
        return None

    for bi, b in enumerate(f.blocks):
        if bi not in f.live_blocks:
            continue
        for s in b["s"]:
            if s[0] != "A":
                continue
            if "*" in s[1][1]:
                sid = base_static(s[1])
                if sid:
                    out.append(("write", sid, s[3]))
            rv = s[2]
            if rv[0] in ("ref", "ptr"):
                sid = base_static(rv[2]) if "*" in rv[2][1] else None
                if sid:
                    mut = rv[1] == "mut" or "Mut" in rv[1]
                    out.append(("write" if mut else "read", sid, s[3]))
            elif rv[0] == "use" and rv[1][0] != "k" and "*" in rv[1][1][1]:
                sid = base_static(rv[1][1])
                if sid:
                    out.append(("read", sid, s[3]))
        t = b["t"]
        if t[0] == "call" and "*" in t[3][1]:
            sid = base_static(t[3])
            if sid:
                out.append(("write", sid, t[6]))
    return out


def run(ctx):
    prog = ctx.prog
    ctx.rule("R1", "no unsynchronised shared write (static mut, registry write, env/cwd, files) in code reachable from producers")
    ctx.rule("R1b", "static mut registries are written only from start-up code, which runs before workers are spawned")
    ctx.rule("R2", "per-file failure isolation: errors continue the walk; Quit only after a failed send")
    ctx.rule("R3", "each produced item is handed to the channel exactly once")
    ctx.rule("R5", "content-based skipping is decided by read_file alone: sole producer-side reader, sole caller of file_too_large, walkers carry only path/config filters")
    ctx.rule("R6", "producers share no readable state: besides counters (atomic fetch_add) and the trace sink, no lock, cell or atomic load/store is reachable from a producer")
    ctx.rule("R4", "no FINDING-class panic site is reachable from producers (a worker panic hangs the process)")
    roots = producer_roots(prog)
    ctx.floor("R1", "producer impls", len(roots), 5)
    rw = ctx.anchor("R2", r"^ast_grep::utils::worker::run_worker$")
    walker_closures = [g for g in prog.fns.values() if g.is_closure and rw is not None and g.root == rw.id]
    P = prog.reach(roots + [g.id for g in walker_closures])
    P = {p for p in P if p in prog.fns and prog.fns[p].crate.startswith("ast_grep")}
    ctx.extra["producer_reachable_functions"] = len(P)
    ctx.floor("R1", "functions reachable from producers", len(P), 300)
    n_bad = 0
    mut_statics = {k for k, v in prog.statics.items() if v.get("mut")}
    ctx.extra["mutable_statics"] = sorted(mut_statics)
    reads = {}
    for fid in sorted(P):
        f = prog.fns[fid]
        for kind, sid, line in static_accesses(prog, f):
            if kind == "write":
                n_bad += 1
                ctx.ob("R1", "static mut write %s in %s" % (sid, fid), False, "producer-reachable code writes or mutably borrows `static mut %s`: a data race between walker threads" % sid, where=f.loc(line))
            else:
                reads.setdefault(sid, set()).add(fid)
        for c in f.calls:
            if FORBIDDEN_CALLS.search(c.best):
                n_bad += 1
                ctx.ob("R1", "%s called in %s" % (c.best, fid), False, "producer-reachable code performs a process-global / unsynchronised effect or keeps per-thread state (thread_local!): what one file leaves behind can influence the files processed after it", where=f.loc(c.line))
    # persistent per-thread / interior-mutable statics: state that survives from one file to the next
    INTERIOR = re.compile(r"std::thread::local::LocalKey|Mutex<|RwLock<|RefCell<|core::cell::Cell<|OnceCell<|OnceLock<|LazyLock<|LazyCell<|core::sync::atomic::Atomic|UnsafeCell<")
    persistent = {k for k, v in prog.statics.items() if INTERIOR.search(v.get("ty", "")) and not k.startswith(("ast_grep_napi", "ast_grep_py"))}
    ctx.extra["interior_mutable_statics"] = sorted(persistent)
    for fid in sorted(P):
        f = prog.fns[fid]
        seen_s = set()
        for b in f.blocks:
            ops = []
            for st in b["s"]:
                if st[0] == "A":
                    rv = st[2]
                    if rv[0] in ("use", "rep"):
                        ops.append((rv[1], st[3]))
                    elif rv[0] == "cast":
                        ops.append((rv[2], st[3]))
                    elif rv[0] == "tls":
                        if rv[1] not in seen_s:
                            seen_s.add(rv[1])
                            n_bad += 1
                            ctx.ob("R1", "thread-local %s used in %s" % (rv[1], fid), False, "producer-reachable code keeps per-thread state (`thread_local!`): what one file leaves behind is seen by the next file processed on the same thread, so results depend on which thread gets which file", where=f.loc(st[3]))
            t = b["t"]
            if t[0] == "call":
                ops += [(a, t[6]) for a in t[2]]
            for o, line in ops:
                if o[0] == "k" and o[1].get("static") in persistent and o[1]["static"] not in seen_s:
                    seen_s.add(o[1]["static"])
                    n_bad += 1
                    ctx.ob("R1", "persistent static %s used in %s" % (o[1]["static"], fid), False,
                           "producer-reachable code uses a thread-local / interior-mutable static (%s): state survives from one file to the next, so the findings of a file can depend on the files processed before it on the same thread" % prog.statics[o[1]["static"]]["ty"][:80], where=f.loc(line))
    ctx.ob("R1", "producer-reachable code is free of shared writes", n_bad == 0, "%d functions reachable from %d producer impls and the walker closure: %d forbidden effects; mutable statics only read: %s" % (len(P), len(roots), n_bad, {k: len(v) for k, v in reads.items()}))
    # allowed shared effects are the enumerated ones: atomics on the worker, channel send
    atom = sorted({c.best for fid in P for c in prog.fns[fid].calls if "atomic::Atomic" in c.best})
    ctx.note("atomic operations in producers: %s" % atom)
    bad_atom = [a for a in atom if not re.search(r"::(fetch_add|load|fetch_sub|new)$", a)]
    ctx.ob("R1", "atomics used commutatively", not bad_atom, "atomic operations reachable from producers: %s" % atom, nontrivial=False)

    # ---- R1b ------------------------------------------------------------------------------------
    setup = ctx.anchor("R1b", r"^ast_grep::config::ProjectConfig::setup$")
    writers = {}
    for f in prog.fns.values():
        if not f.crate.startswith("ast_grep"):
            continue
        for kind, sid, line in static_accesses(prog, f):
            if kind == "write":
                writers.setdefault(sid, set()).add(f.id)
    if setup:
        S = prog.reach([setup.id])
        for sid, ws in sorted(writers.items()):
            if sid.startswith("ast_grep_napi") or sid.startswith("ast_grep_py"):
                continue
            outside = sorted(w for w in ws if w not in S and prog.fns[w].root not in S)
            # library-level registration entry points (DynamicLang::register etc.) are `unsafe fn`s called by setup
            ctx.ob("R1b", "writers of %s" % sid, not outside, "written by %s; all reachable from ProjectConfig::setup: %s" % (sorted(ws), not outside) + ("" if not outside else " — also written outside start-up: %s" % outside))
        ctx.floor("R1b", "mutable statics with writers", len([s for s in writers if not s.startswith(("ast_grep_napi", "ast_grep_py"))]), 3)
    main = prog.find_fns(r"^ast_grep::main_with_args$")
    if len(main) != 1:
        ctx.ob("R1b", "main_with_args anchor", False, "found %d" % len(main))
    else:
        m = main[0]
        fam = prog.family(m)
        setup_calls = [c for g in fam for c in g.calls if setup and (setup.id in prog.reach(prog.call_targets(c)))]
        run_calls = [c for c in m.calls if re.search(r"ast_grep::(run::run_with_pattern|scan::run_with_config|verify::run_test_rule|lsp::run_language_server|new::run_create_new)$", c.best)]
        ok = bool(setup_calls) and bool(run_calls)
        if ok:
            top_setups = [c for c in setup_calls if c.fn is m]
            ok = bool(top_setups) and all(any(m.dominates(s.bb, r.bb) for s in top_setups) for r in run_calls)
        ctx.ob("R1b", "setup dominates command dispatch in main", ok, "call reaching ProjectConfig::setup dominates %d command entry calls (%s)" % (len(run_calls), sorted({c.name for c in run_calls})), where=m.loc())

    # ---- R2 / R3 --------------------------------------------------------------------------------
    if rw:
        body = None
        for g in walker_closures:
            if any(c.name == "produce_item" for c in g.calls):
                body = g
        if body is None:
            ctx.ob("R2", "walker closure", False, "closure calling produce_item not found in run_worker")
        else:
            body = prog.inlined(body)  # e.g. the send loop extracted into a private `send_items(&tx, items) -> WalkState`
            quits = [bi for bi in body.live_blocks for s in body.blocks[bi]["s"] if s[0] == "A" and s[2][0] == "agg" and s[2][1].get("variant") == "Quit"]
            sends = [c for c in body.calls if c.name == "send"]
            prod = [c for c in body.calls if c.name == "produce_item"][0]
            filt = [c for c in body.calls if c.name == "filter_result"]
            # Err arm of produce_item must not reach Quit and must reach Continue
            arms = option_arms(body, prod)
            bad = False
            for nb in arms["none"]:
                blocks = body.reachable_from(nb, stop=arms["some"])
                if set(quits) & blocks:
                    bad = True
            ctx.ob("R2", "failed file continues the walk", bool(arms["none"]) and not bad, "the Err arm of produce_item cannot reach `WalkState::Quit`" if not bad else "a file that fails to read/parse stops the whole walk (WalkState::Quit reachable from the Err arm): one bad file changes the findings of all others", where=body.loc(prod.line))
            if filt:
                fa = option_arms(body, filt[0])
                bad2 = any(set(quits) & body.reachable_from(nb, stop=fa["some"]) for nb in fa["none"])
                ctx.ob("R2", "rejected directory entry continues the walk", bool(fa["none"]) and not bad2, "the None arm of filter_result cannot reach Quit", where=body.loc(filt[0].line))
            # Quit only on failed send
            okq = True
            for q in quits:
                dom = False
                for s in sends:
                    sa = option_arms(body, s)
                    for nb in sa["none"]:
                        if body.dominates(nb, q) or nb == q:
                            dom = True
                if not dom:
                    okq = False
            ctx.ob("R2", "Quit only after a failed send", okq and len(sends) >= 1, "%d Quit site(s), each dominated by the Err arm of a channel send" % len(quits), where=body.loc())
            # R3
            one = len(sends) == 1
            fed = False
            if one:
                roots = deep_roots(prog, body, sends[0].args[1], (TRANSPARENT | {"next", "into_iter"}))
                fed = any(o.kind == "call" and o.ref is prod for o in roots)
                moved = sends[0].args[1][0] == "m"
                clones = [c for c in body.calls if c.name == "clone" and any(o.kind == "call" and o.ref is prod for o in deep_roots(prog, body, c.args[0], TRANSPARENT | {"next", "into_iter"}))]
                fed = fed and moved and not clones
            ctx.ob("R3", "single send site fed by produce_item's items", one and fed, "exactly one tx.send in the walker closure; its payload is moved out of the iteration over produce_item's Vec; no clone of items", where=body.loc())
            # the thread is spawned once and the consumer runs on the calling thread
            spawns = [c for c in rw.calls if c.name == "spawn"]
            cons = [c for c in rw.calls if c.name == "consume_items"]
            ctx.ob("R3", "one producer thread group, one consumer", len(spawns) == 1 and len(cons) == 1, "run_worker spawns once and calls consume_items once", where=rw.loc())

    # the consumer stops only when every sender has hung up: the item channel is read with the blocking `recv` (or `iter`), never with
    # a timeout / non-blocking read whose "nothing yet" would be taken for "nothing more" (findings produced later are lost, and which
    # ones depends on the schedule)
    timed = [c for f in prog.fns.values() if f.crate == "ast_grep" for c in f.calls
             if c.bb in f.live_blocks and re.search(r"mpsc::Receiver::<T>::(recv_timeout|try_recv|recv_deadline|try_iter)$|mpmc::.*::(recv_timeout|try_recv)$", c.best)]
    ctx.ob("R3", "the item channel is only read with the blocking recv", not timed,
           "no recv_timeout/try_recv on a channel in the cli" if not timed else
           "the printing thread reads the channel with %s (%s): a quiet period — a slow file, many files without findings, a stalled reader of --inspect output — ends the consumer while "
           "walker threads are still producing; their later findings are dropped, the exit status stays 0" % (sorted({c.name for c in timed}), timed[0].fn.id), where=timed[0].fn.loc(timed[0].line) if timed else None)
    itn = prog.find_fns(r"^<ast_grep::utils::worker::Items<T> as core::iter::traits::iterator::Iterator>::next$")
    ctx.ob("R3", "Items::next anchor", len(itn) == 1, "found %d" % len(itn))
    for f in itn:
        rc = [c for c in f.calls if c.name == "recv" and "Receiver" in c.best]
        ctx.ob("R3", "Items::next blocks in Receiver::recv", len(rc) == 1, "%d call(s) of Receiver::recv" % len(rc), where=f.loc())
    # ---- R4 -------------------------------------------------------------------------------------
    from . import c11
    table = c11.load_table()
    lr = c11.roots(prog, c11.LOAD_ROOTS)
    hits = []
    for key, row in table.items():
        if row["verdict"] == "FINDING":
            fid = key.split(" | ")[0]
            if fid in P:
                hits.append(key)
    ctx.ob("R4", "FINDING-class panic sites reachable from producers", not hits, "%d" % len(hits) if not hits else "a panic on a walker thread is never joined: the consumer blocks forever: %s" % hits[:3])
    # …and no panic site nobody has reviewed: the C11 site enumeration restricted to producer-reachable functions (a slice of the file's
    # text at a computed offset, an unwrap on something the file decides — one such file takes the walker thread down and with it the
    # findings of every other file)
    from ..core import Ctx
    sub = ctx.prog.__dict__.get("_c11_sub")
    if sub is None:
        sub = Ctx("C11", ctx.tier, prog)
        c11.run(sub)
        ctx.prog.__dict__["_c11_sub"] = sub
    n_sites = 0
    for o in sub.obligations:
        if o["rule"] != "R1":
            continue
        fid = o["key"].split(":", 1)[1].split(" | ")[0]
        if fid not in P:
            continue
        n_sites += 1
        if not o["ok"] and "not in the reviewed table" in o["detail"]:
            ctx.ob("R4", "unreviewed panic site in a producer: " + o["key"].split(":", 1)[1], False,
                   "a panic on a walker thread is never joined (the consumer blocks forever / the other files' findings are lost): " + o["detail"], where=o.get("where"))
    ctx.floor("R4", "panic sites in producer-reachable functions (reviewed in tables/panic_sites.json)", n_sites, 120)

    r5(ctx, P)
    r6(ctx, P)
    ctx.rule("R7", "the printing thread carries no per-file data from one item to the next: printer fields are only latched to a constant, counted up, or are the writer / inner printer")
    consumer_state(ctx, "R7")


# every method of ignore::WalkBuilder (ignore 0.4.23), classified by what the filter looks at
WALK_PATH_BASED = {"new", "add", "build", "build_parallel", "threads", "follow_links", "overrides", "types", "standard_filters", "hidden", "parents", "ignore",
                   "git_global", "git_ignore", "git_exclude", "require_git", "ignore_case_insensitive", "add_ignore", "add_custom_ignore_filename",
                   "max_depth", "sort_by_file_path", "sort_by_file_name", "clone", "fmt"}
WALK_CONTENT_BASED = {"max_filesize": "drops entries by metadata size (below a root only; read_file rejects on size AND line count)",
                      "filter_entry": "arbitrary closure over entries (below a root only)",
                      "same_file_system": "drops entries by device id", "skip_stdout": "drops the file stdout is redirected to"}
READERS = re.compile(r"^std::fs::(read_to_string|read)$|^std::fs::File::open$|^std::io::Read::read_to_string$|^std::io::Read::read_to_end$")


def r5(ctx, P):
    prog = ctx.prog
    n = nbad = 0
    for f in sorted(prog.fns.values(), key=lambda f: f.id):
        if f.crate != "ast_grep" or not (f.id.startswith("ast_grep::utils::args::") or f.id.startswith("ast_grep::utils::worker::")):
            continue
        for c in f.calls:
            if "ignore::walk::WalkBuilder" not in c.best or c.bb not in f.live_blocks:
                continue
            n += 1
            if c.name in WALK_PATH_BASED:
                continue
            why = WALK_CONTENT_BASED.get(c.name)
            nbad += 1
            ctx.ob("R5", "walker filter %s in %s" % (c.name, f.id), False,
                   ("WalkBuilder::%s %s: files are skipped by a second criterion that read_file does not share and that a root path never meets — the findings of a "
                    "tree no longer equal the union of its files scanned alone" % (c.name, why)) if why else
                   "WalkBuilder::%s is not in the classified method table of the checker (classify it as path/config based or content based)" % c.name, where=f.loc(c.line))
    ctx.floor("R5", "WalkBuilder configuration calls of the scanning commands", n, 14)
    if not nbad:
        ctx.ob("R5", "scanning walkers use path/config filters only", True, "%d WalkBuilder calls in utils::args, all in the path/configuration class" % n, nontrivial=False)
    # the walker's file-type filter and per-file language detection agree: a language's built-in extension table is only ever used
    # merged with the user's languageGlobs (merge_globs).  A type filter built from the bare table skips, in a tree walk, files that a
    # per-file scan recognises through languageGlobs.
    raw = [c for c in prog.who_calls(r"^(ast_grep_language::SupportLang|ast_grep_dynamic::DynamicLang|ast_grep_dynamic::\w+)::file_types$") if c.fn.crate == "ast_grep"]
    ctx.floor("R5", "uses of the built-in file-type tables in the cli", len(raw), 2)
    for c in raw:
        f = c.fn
        fam = prog.family(prog.fns.get(f.root) or f) if f.is_closure else prog.family(f)
        merged = False
        for g in fam:
            for m in g.calls:
                if m.name == "merge_globs" and len(m.args) >= 2 and any(h is f and o.kind == "call" and o.ref is c for h, o in ultimate_roots(prog, g, m.args[1], TRANSPARENT)):
                    merged = True
        key = "built-in file types of %s are merged with languageGlobs in %s" % (c.best.split("::")[-2], (f.root or f.id) if f.is_closure else f.id)
        ctx.ob("R5", key, merged, "the table flows into lang_globs::merge_globs" if merged else
               "the bare extension table is used without lang_globs::merge_globs: the walker's type filter no longer contains the languageGlobs of that language, so a tree walk "
               "skips files that scanning the file alone (language detection honours languageGlobs) processes", where=f.loc(c.line))
    # …and between the walker and read_file nothing looks at a file's size or other metadata: `file_too_large` (bytes AND lines, on the
    # content) is the only size criterion; a metadata-based skip in the entry filter drops files that read_file accepts, without counting them
    META = re.compile(r"::(metadata|symlink_metadata)$|fs::Metadata::(len|size|modified|accessed|created|permissions)$|MetadataExt")
    metas = [c for fid in sorted(P) for c in prog.fns[fid].calls if c.bb in prog.fns[fid].live_blocks and META.search(c.best)]
    ctx.ob("R5", "producers do not look at file metadata", not metas,
           "no metadata()/Metadata::len in producer-reachable cli code" if not metas else
           "producer-side code reads file metadata (%s in %s): a size/date criterion applied before read_file skips files that scanning the file alone — and the library — process, and "
           "the skipped file is not even counted" % (sorted({c.name for c in metas}), metas[0].fn.id), where=metas[0].fn.loc(metas[0].line) if metas else None)
    # only REGULAR files become work items: the walker also yields symlinks (without --follow), FIFOs, sockets and devices; an entry
    # filter that merely excludes directories lets a FIFO block a walker thread in open() forever and reads a symlinked file twice
    fr0 = ctx.anchor("R5", r"^ast_grep::utils::worker::filter_result$")
    if fr0:
        fr = prog.inlined(fr0)
        from ..query import bool_arms
        isf = [c for c in fr.calls if c.name == "is_file" and "FileType" in c.best and c.bb in fr.live_blocks]
        somes = [bi for bi in sorted(fr.live_blocks) for st in fr.blocks[bi]["s"] if st[0] == "A" and st[1][0] == 0 and not st[1][1] and st[2][0] == "agg" and st[2][1].get("variant") == "Some"]
        okf = False
        if isf and somes:
            ba = bool_arms(fr, isf[0])
            okf = bool(ba) and all(fr.dominates(ba["true"], b) or ba["true"] == b for b in somes)
        ctx.ob("R5", "filter_result passes regular files only", okf,
               "Some(path) is returned only on the true arm of FileType::is_file()" if okf else
               "the entry filter does not require file_type().is_file() for what it passes on (is_file calls: %d): symlinks, FIFOs and devices yielded by the walker reach read_to_string — a FIFO "
               "blocks a walker thread forever (the scan never ends), a symlinked file is scanned twice" % len(isf), where=fr0.loc())
    rf = ctx.anchor("R5", r"^ast_grep::utils::read_file$")
    tl = ctx.anchor("R5", r"^ast_grep::utils::file_too_large$")
    if rf and tl:
        callers = sorted({c.fn.root if c.fn.is_closure else c.fn.id for c in prog.call_sites.get(tl.id, [])})
        ctx.ob("R5", "file_too_large called by read_file only", callers == [rf.id], "callers: %s" % callers, where=tl.loc())
        readers = sorted({fid for fid in P for c in prog.fns[fid].calls if READERS.search(c.best)})
        ctx.ob("R5", "read_file is the only reader of file contents on producer threads", readers == [rf.id],
               "producer-reachable functions that read files: %s" % readers if readers == [rf.id] else
               "file contents are also read by %s: those paths bypass read_file's empty/oversized/UTF-8 rejection" % [r for r in readers if r != rf.id], where=rf.loc())
        # rejection = Err on every arm that is not the content: too large -> Err, empty -> Err
        from ..query import bool_arms, assigns_ret_variant
        tlc = [c for c in rf.calls if prog.call_targets(c) == [tl.id]]
        ok = False
        if tlc:
            ba = bool_arms(rf, tlc[0])
            if ba:
                from ..query import reach_with_variants
                tb = reach_with_variants(rf, ba["true"], stop=[ba["false"]])
                errs = bool(assigns_ret_variant(rf, tb, "Err")) or any(c.name == "from_residual" and c.bb in tb and c.dest and c.dest[0] == 0 for c in rf.calls)
                ok = errs and not assigns_ret_variant(rf, tb, "Ok")
        ctx.ob("R5", "oversized content is rejected with Err", ok, "the true arm of file_too_large returns Err (counted as a skipped file by run_worker)", where=rf.loc())


SYNC_API = re.compile(r"(std::sync::(poison::)?(mutex::Mutex|rwlock::RwLock)::<T>::(lock|try_lock|read|write|try_read|try_write|get_mut|into_inner)$"
                      r"|core::cell::(RefCell|Cell|OnceCell|UnsafeCell)::<T>::\w+$|std::sync::(once_lock::OnceLock|lazy_lock::LazyLock|once::Once)::<.*>::\w+$|std::sync::once::Once::\w+$"
                      r"|core::sync::atomic::Atomic(::<\w+>|\w+)::\w+$)")
COMMUTATIVE = re.compile(r"core::sync::atomic::Atomic(::<\w+>|\w+)::(fetch_add|fetch_sub|new)$")


def r6(ctx, P):
    prog = ctx.prog
    n = 0
    for fid in sorted(P):
        f = prog.fns[fid]
        per = {}
        for c in f.calls:
            if c.bb not in f.live_blocks or not SYNC_API.search(c.best):
                continue
            n += 1
            per[c.name] = per.get(c.name, 0) + 1
            ordn = "" if per[c.name] == 1 else "#%d" % per[c.name]
            if COMMUTATIVE.search(c.best):
                used = [1 for b in f.live_blocks for st in f.blocks[b]["s"] if st[0] == "A" and st[2][0] in ("use", "bin") and any(
                    op[0] != "k" and any(o.kind == "call" and o.ref is c for o in f.trace_operand(op)) for op in ([st[2][1]] if st[2][0] == "use" else [st[2][2], st[2][3]]))]
                sw = [b for b in f.live_blocks if f.blocks[b]["t"][0] == "switch" and f.blocks[b]["t"][1][0] != "k" and any(o.kind == "call" and o.ref is c for o in f.trace_operand(f.blocks[b]["t"][1]))]
                ctx.ob("R6", "counter %s in %s%s" % (c.name, fid, ordn), not sw, "commutative counter update; its previous value does not steer control flow" if not sw else
                       "the value returned by %s is branched on: the outcome for this file depends on how many files were counted before it" % c.name, where=f.loc(c.line), nontrivial=False)
                continue
            # a lock is acceptable only as the trace sink: the guard is used for nothing but writing
            sink = False
            if c.name == "lock" and "Mutex" in c.best:
                uses = [c2.name for c2 in f.calls if c2 is not c and c2.args and c2.args[0][0] != "k" and any(
                    o.kind == "call" and o.ref is c for o in deep_roots(prog, f, c2.args[0], TRANSPARENT | {"deref_mut", "expect", "unwrap"}))]
                arg_uses = [c2.name for c2 in f.calls if c2 is not c for a in c2.args[1:] if a[0] != "k" and any(
                    o.kind == "call" and o.ref is c for o in deep_roots(prog, f, a, TRANSPARENT | {"deref_mut", "expect", "unwrap"}))]
                sink = bool(uses) and set(uses) <= {"write_fmt", "write_all", "write", "flush", "expect", "unwrap", "deref_mut", "deref"} and set(arg_uses) <= {"call_once", "call_mut", "call"}
                detail = "Mutex guard is only the receiver of %s (and handed to the caller's writer closure): a write-only sink" % sorted(set(uses) - {"expect", "unwrap", "deref_mut", "deref"})
            ctx.ob("R6", "shared state access %s in %s%s" % (c.best.split("::")[-1], fid, ordn), sink,
                   detail if sink else
                   "producer-reachable code uses %s: state that outlives one file and is read back — the result for a file can then depend on which files a worker "
                   "(any worker) handled before it, so a tree scan no longer equals the union of its files scanned alone and varies with --threads" % c.best, where=f.loc(c.line))
    ctx.floor("R6", "synchronisation API calls in producer-reachable code", n, 5)


COUNTER_OPS = {"saturating_add", "wrapping_add", "checked_add", "add", "add_assign"}


def consumer_state(ctx, rid):
    """Items (one per file / document) reach the single printing thread in schedule order.  Whatever the consumer remembers from one item
    changes what it does with the next, i.e. the result depends on the schedule and on which other files exist.  Allowed state in the
    structs under ast_grep::print reachable from consume_items: a field set to a constant (latch: `matched = true`, `accept_all = true`),
    a field counted up from itself (`committed_cnt`), and `&mut` method calls on fields of a generic type (the writer W, the inner
    printer P).  Anything else — an offset, a path, a collection — is per-file data surviving the file."""
    prog = ctx.prog
    roots = [f.id for f in prog.find_fns(r"^<ast_grep::.* as ast_grep::utils::worker::Worker>::consume_items$")]
    ctx.floor(rid, "consume_items implementations", len(roots), 4)
    R = [prog.fns[x] for x in sorted(prog.reach(roots)) if x in prog.fns and prog.fns[x].crate == "ast_grep"]
    ctx.floor(rid, "consumer-reachable cli functions", len(R), 30)

    def printer_field(f, local, proj):
        """the `.field|Owner` a place addresses when it goes through a reference parameter/capture to a struct of ast_grep::print"""
        fields = [p for p in proj if isinstance(p, str) and p.startswith(".") and "|ast_grep::print::" in p and "{closure" not in p]
        if not fields or "*" not in proj:
            return None
        if fields[-1].split("|")[1].endswith(("::Diffs", "::Diff", "::InteractiveDiff", "::Highlights")):
            return None  # the item's own payload
        return fields[-1]

    n = 0
    for f in R:
        for bi in sorted(f.live_blocks):
            for st in f.blocks[bi]["s"]:
                if st[0] != "A" or not st[1][1]:
                    continue
                fld = printer_field(f, st[1][0], st[1][1])
                if not fld:
                    continue
                n += 1
                rv = st[2]
                ok = rv[0] == "use" and rv[1][0] == "k"
                why = "latched to a constant"
                if not ok and rv[0] == "bin" and rv[1] in ("BitOr", "BitAnd") and any(
                        r.kind in ("param", "local") and fld in r.proj for x in rv[2:4] if x[0] != "k" for r in f.trace_operand(x)):
                    ok, why = True, "monotone latch (`|=` / `&=` with itself)"
                if not ok and rv[0] == "use":
                    for o in f.trace_operand(rv[1]):
                        if o.kind == "call" and o.ref.name in COUNTER_OPS and o.ref.args and any(
                                r.kind in ("param", "local") and fld in r.proj for r in f.trace_operand(o.ref.args[0])):
                            ok, why = True, "counted up from itself (%s)" % o.ref.name
                        elif o.kind == "op" and o.ref[2][0] in ("bin", "checked") and str(o.ref[2][1]).startswith("Add") and any(
                                r.kind in ("param", "local") and fld in r.proj for x in o.ref[2][2:4] for r in f.trace_operand(x)):
                            ok, why = True, "counted up from itself"
                ctx.ob(rid, "%s writes %s" % (f.id, fld.split("|")[0][1:] + " of " + fld.split("|")[1].rsplit("::", 1)[-1]), ok,
                       why if ok else
                       "the printing thread stores per-item data in %s and keeps it for the next item: what is printed/applied for a file then depends on which file "
                       "happened to be delivered before it (thread schedule, other files in the tree)" % fld.split("|")[0][1:], where=f.loc(st[3]))
        for c in f.calls:
            if c.bb not in f.live_blocks or not c.args or c.args[0][0] == "k":
                continue
            ty = f.locals[c.args[0][1][0]]
            if not ty.startswith("&mut "):
                continue
            for o in deep_roots(prog, f, c.args[0], TRANSPARENT):
                if o.kind != "param":
                    continue
                fld = printer_field(f, o.ref, ("*",) + tuple(o.proj))
                if not fld:
                    continue
                n += 1
                generic = bool(re.match(r"^&mut (impl )?[A-Z]\w*$", ty)) or "dyn " in ty or "impl " in ty
                if not generic and c.name in ("replace", "take", "swap") and "core::mem::" in c.best and (len(c.args) < 2 or c.args[1][0] == "k"):
                    # std::mem::replace(&mut self.flag, CONST) / mem::take: a latch written through a `&mut`
                    ctx.ob(rid, "%s latches %s" % (f.id, fld.split("|")[0][1:] + " of " + fld.split("|")[1].rsplit("::", 1)[-1]), True, "core::mem::%s with a constant" % c.name, where=f.loc(c.line), nontrivial=False)
                    break
                ctx.ob(rid, "%s calls %s on %s" % (f.id, c.name, fld.split("|")[0][1:] + " of " + fld.split("|")[1].rsplit("::", 1)[-1]), generic,
                       "the writer / inner printer (generic type %s)" % ty[5:] if generic else
                       "a `&mut` method of the concrete type %s is called on a printer field: per-item data can accumulate across items" % ty[5:], where=f.loc(c.line),
                       nontrivial=not generic)
                break
    ctx.floor(rid, "consumer-side writes to printer state", n, 8)
