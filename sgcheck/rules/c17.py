"""C17 — files are processed independently whatever the schedule: effect analysis from producer entry points."""
import re
from ..query import option_arms, deep_roots, ultimate_roots, describe_origin, TRANSPARENT, field_path

EXPLANATION = (
    "Decided (valid for every schedule, because it is a statement about which code can touch what): R1 no function "
    "reachable from a walker-thread producer (every impl of PathWorker::produce_item / StdInWorker::parse_stdin and the walker "
    "closure of run_worker) writes or mutably borrows a `static mut`, calls the registry's unsynchronised write "
    "(Registration::write) or its callers, changes process-global state (env vars, cwd) or writes files; the only shared effects "
    "are atomic counters, channel sends and stderr. R1b every writer of the `static mut` registries is reachable only from the "
    "start-up path, and in main the set-up call dominates the command dispatch that spawns workers. R2 in run_worker's walker "
    "closure a failed file (Err from produce_item, rejected entry) leads to WalkState::Continue; Quit is only on the failed-send "
    "arm. R3 each produced item is sent exactly once (single send site, fed by the iteration over produce_item's result). "
    "R4 panic sites of FINDING class reachable from producers (a panic there hangs the process) — none may exist."
)
NOT_DECIDED = (
    "That the union over files equals per-file runs as values; that the `ignore` walker visits each eligible file exactly once; "
    "liveness of the channel/consumer; read-file rejection rules (empty/oversized) as values."
)
TRUSTED = ["ignore::WalkParallel visits each entry once and runs closures on its own threads", "std::sync::mpsc", "call graph over-approximates trait calls by all workspace impls"]

PRODUCER_TRAITS = {"ast_grep::utils::worker::PathWorker": ("produce_item",), "ast_grep::utils::worker::StdInWorker": ("parse_stdin",)}
FORBIDDEN_CALLS = re.compile(
    r"^std::env::(set_var|remove_var|set_current_dir)$"
    r"|^std::fs::(write|remove_file|remove_dir|remove_dir_all|rename|create_dir|create_dir_all|copy)$"
    r"|^std::fs::File::(create|create_new)$|^std::fs::OpenOptions::(write|append|create|truncate)$"
    r"|::Registration::<R>::write$"
    r"|^std::thread::local::LocalKey::<.*>::(with|try_with|with_borrow|with_borrow_mut|set|get|take|replace)$"
)


def producer_roots(prog):
    out = []
    for i in prog.impls:
        names = PRODUCER_TRAITS.get(i.get("trait"))
        if names:
            for it in i["items"]:
                if it["name"] in names:
                    out.append(it["id"])
    return out


def static_accesses(prog, f):
    """(kind, static id, line) for uses of mutable statics in f: 'write' (assignment through / &mut of), 'read'"""
    out = []
    ptr_locals = {}
    for bi, b in enumerate(f.blocks):
        for s in b["s"]:
            if s[0] == "A" and s[2][0] == "use" and s[2][1][0] == "k" and "static" in s[2][1][1] and not s[1][1]:
                sid = s[2][1][1]["static"]
                if prog.statics.get(sid, {}).get("mut"):
                    ptr_locals[s[1][0]] = sid
    if not ptr_locals:
        return out

    def base_static(place):
        l = place[0]
        if l in ptr_locals:
            return ptr_locals[l]
        for o in f.trace_local(l):
            if o.kind == "static" and prog.statics.get(o.ref, {}).get("mut"):
                return o.ref
        return None

    for bi, b in enumerate(f.blocks):
        if bi not in f.live_blocks:
            continue
        for s in b["s"]:
            if s[0] != "A":
                continue
            if "*" in s[1][1]:
                sid = base_static(s[1])
                if sid:
                    out.append(("write", sid, s[3]))
            rv = s[2]
            if rv[0] in ("ref", "ptr"):
                sid = base_static(rv[2]) if "*" in rv[2][1] else None
                if sid:
                    mut = rv[1] == "mut" or "Mut" in rv[1]
                    out.append(("write" if mut else "read", sid, s[3]))
            elif rv[0] == "use" and rv[1][0] != "k" and "*" in rv[1][1][1]:
                sid = base_static(rv[1][1])
                if sid:
                    out.append(("read", sid, s[3]))
        t = b["t"]
        if t[0] == "call" and "*" in t[3][1]:
            sid = base_static(t[3])
            if sid:
                out.append(("write", sid, t[6]))
    return out


def run(ctx):
    prog = ctx.prog
    ctx.rule("R1", "no unsynchronised shared write (static mut, registry write, env/cwd, files) in code reachable from producers")
    ctx.rule("R1b", "static mut registries are written only from start-up code, which runs before workers are spawned")
    ctx.rule("R2", "per-file failure isolation: errors continue the walk; Quit only after a failed send")
    ctx.rule("R3", "each produced item is handed to the channel exactly once")
    ctx.rule("R4", "no FINDING-class panic site is reachable from producers (a worker panic hangs the process)")
    roots = producer_roots(prog)
    ctx.floor("R1", "producer impls", len(roots), 5)
    rw = ctx.anchor("R2", r"^ast_grep::utils::worker::run_worker$")
    walker_closures = [g for g in prog.fns.values() if g.is_closure and rw is not None and g.root == rw.id]
    P = prog.reach(roots + [g.id for g in walker_closures])
    P = {p for p in P if p in prog.fns and prog.fns[p].crate.startswith("ast_grep")}
    ctx.extra["producer_reachable_functions"] = len(P)
    ctx.floor("R1", "functions reachable from producers", len(P), 300)
    n_bad = 0
    mut_statics = {k for k, v in prog.statics.items() if v.get("mut")}
    ctx.extra["mutable_statics"] = sorted(mut_statics)
    reads = {}
    for fid in sorted(P):
        f = prog.fns[fid]
        for kind, sid, line in static_accesses(prog, f):
            if kind == "write":
                n_bad += 1
                ctx.ob("R1", "static mut write %s in %s" % (sid, fid), False, "producer-reachable code writes or mutably borrows `static mut %s`: a data race between walker threads" % sid, where=f.loc(line))
            else:
                reads.setdefault(sid, set()).add(fid)
        for c in f.calls:
            if FORBIDDEN_CALLS.search(c.best):
                n_bad += 1
                ctx.ob("R1", "%s called in %s" % (c.best, fid), False, "producer-reachable code performs a process-global / unsynchronised effect or keeps per-thread state (thread_local!): what one file leaves behind can influence the files processed after it", where=f.loc(c.line))
    # persistent per-thread / interior-mutable statics: state that survives from one file to the next
    INTERIOR = re.compile(r"std::thread::local::LocalKey|Mutex<|RwLock<|RefCell<|core::cell::Cell<|OnceCell<|OnceLock<|LazyLock<|LazyCell<|core::sync::atomic::Atomic|UnsafeCell<")
    persistent = {k for k, v in prog.statics.items() if INTERIOR.search(v.get("ty", "")) and not k.startswith(("ast_grep_napi", "ast_grep_py"))}
    ctx.extra["interior_mutable_statics"] = sorted(persistent)
    for fid in sorted(P):
        f = prog.fns[fid]
        seen_s = set()
        for b in f.blocks:
            ops = []
            for st in b["s"]:
                if st[0] == "A":
                    rv = st[2]
                    if rv[0] in ("use", "rep"):
                        ops.append((rv[1], st[3]))
                    elif rv[0] == "cast":
                        ops.append((rv[2], st[3]))
                    elif rv[0] == "tls":
                        if rv[1] not in seen_s:
                            seen_s.add(rv[1])
                            n_bad += 1
                            ctx.ob("R1", "thread-local %s used in %s" % (rv[1], fid), False, "producer-reachable code keeps per-thread state (`thread_local!`): what one file leaves behind is seen by the next file processed on the same thread, so results depend on which thread gets which file", where=f.loc(st[3]))
            t = b["t"]
            if t[0] == "call":
                ops += [(a, t[6]) for a in t[2]]
            for o, line in ops:
                if o[0] == "k" and o[1].get("static") in persistent and o[1]["static"] not in seen_s:
                    seen_s.add(o[1]["static"])
                    n_bad += 1
                    ctx.ob("R1", "persistent static %s used in %s" % (o[1]["static"], fid), False,
                           "producer-reachable code uses a thread-local / interior-mutable static (%s): state survives from one file to the next, so the findings of a file can depend on the files processed before it on the same thread" % prog.statics[o[1]["static"]]["ty"][:80], where=f.loc(line))
    ctx.ob("R1", "producer-reachable code is free of shared writes", n_bad == 0, "%d functions reachable from %d producer impls and the walker closure: %d forbidden effects; mutable statics only read: %s" % (len(P), len(roots), n_bad, {k: len(v) for k, v in reads.items()}))
    # allowed shared effects are the enumerated ones: atomics on the worker, channel send
    atom = sorted({c.best for fid in P for c in prog.fns[fid].calls if "atomic::Atomic" in c.best})
    ctx.note("atomic operations in producers: %s" % atom)
    bad_atom = [a for a in atom if not re.search(r"::(fetch_add|load|fetch_sub|new)$", a)]
    ctx.ob("R1", "atomics used commutatively", not bad_atom, "atomic operations reachable from producers: %s" % atom, nontrivial=False)

    # ---- R1b ------------------------------------------------------------------------------------
    setup = ctx.anchor("R1b", r"^ast_grep::config::ProjectConfig::setup$")
    writers = {}
    for f in prog.fns.values():
        if not f.crate.startswith("ast_grep"):
            continue
        for kind, sid, line in static_accesses(prog, f):
            if kind == "write":
                writers.setdefault(sid, set()).add(f.id)
    if setup:
        S = prog.reach([setup.id])
        for sid, ws in sorted(writers.items()):
            if sid.startswith("ast_grep_napi") or sid.startswith("ast_grep_py"):
                continue
            outside = sorted(w for w in ws if w not in S and prog.fns[w].root not in S)
            # library-level registration entry points (DynamicLang::register etc.) are `unsafe fn`s called by setup
            ctx.ob("R1b", "writers of %s" % sid, not outside, "written by %s; all reachable from ProjectConfig::setup: %s" % (sorted(ws), not outside) + ("" if not outside else " — also written outside start-up: %s" % outside))
        ctx.floor("R1b", "mutable statics with writers", len([s for s in writers if not s.startswith(("ast_grep_napi", "ast_grep_py"))]), 3)
    main = prog.find_fns(r"^ast_grep::main_with_args$")
    if len(main) != 1:
        ctx.ob("R1b", "main_with_args anchor", False, "found %d" % len(main))
    else:
        m = main[0]
        fam = prog.family(m)
        setup_calls = [c for g in fam for c in g.calls if setup and (setup.id in prog.reach(prog.call_targets(c)))]
        run_calls = [c for c in m.calls if re.search(r"ast_grep::(run::run_with_pattern|scan::run_with_config|verify::run_test_rule|lsp::run_language_server|new::run_create_new)$", c.best)]
        ok = bool(setup_calls) and bool(run_calls)
        if ok:
            top_setups = [c for c in setup_calls if c.fn is m]
            ok = bool(top_setups) and all(any(m.dominates(s.bb, r.bb) for s in top_setups) for r in run_calls)
        ctx.ob("R1b", "setup dominates command dispatch in main", ok, "call reaching ProjectConfig::setup dominates %d command entry calls (%s)" % (len(run_calls), sorted({c.name for c in run_calls})), where=m.loc())

    # ---- R2 / R3 --------------------------------------------------------------------------------
    if rw:
        body = None
        for g in walker_closures:
            if any(c.name == "produce_item" for c in g.calls):
                body = g
        if body is None:
            ctx.ob("R2", "walker closure", False, "closure calling produce_item not found in run_worker")
        else:
            quits = [bi for bi in body.live_blocks for s in body.blocks[bi]["s"] if s[0] == "A" and s[1][0] == 0 and s[2][0] == "agg" and s[2][1].get("variant") == "Quit"]
            sends = [c for c in body.calls if c.name == "send"]
            prod = [c for c in body.calls if c.name == "produce_item"][0]
            filt = [c for c in body.calls if c.name == "filter_result"]
            # Err arm of produce_item must not reach Quit and must reach Continue
            arms = option_arms(body, prod)
            bad = False
            for nb in arms["none"]:
                blocks = body.reachable_from(nb, stop=arms["some"])
                if set(quits) & blocks:
                    bad = True
            ctx.ob("R2", "failed file continues the walk", bool(arms["none"]) and not bad, "the Err arm of produce_item cannot reach `WalkState::Quit`" if not bad else "a file that fails to read/parse stops the whole walk (WalkState::Quit reachable from the Err arm): one bad file changes the findings of all others", where=body.loc(prod.line))
            if filt:
                fa = option_arms(body, filt[0])
                bad2 = any(set(quits) & body.reachable_from(nb, stop=fa["some"]) for nb in fa["none"])
                ctx.ob("R2", "rejected directory entry continues the walk", bool(fa["none"]) and not bad2, "the None arm of filter_result cannot reach Quit", where=body.loc(filt[0].line))
            # Quit only on failed send
            okq = True
            for q in quits:
                dom = False
                for s in sends:
                    sa = option_arms(body, s)
                    for nb in sa["none"]:
                        if body.dominates(nb, q) or nb == q:
                            dom = True
                if not dom:
                    okq = False
            ctx.ob("R2", "Quit only after a failed send", okq and len(sends) >= 1, "%d Quit site(s), each dominated by the Err arm of a channel send" % len(quits), where=body.loc())
            # R3
            one = len(sends) == 1
            fed = False
            if one:
                roots = deep_roots(prog, body, sends[0].args[1], (TRANSPARENT | {"next", "into_iter"}))
                fed = any(o.kind == "call" and o.ref is prod for o in roots)
                moved = sends[0].args[1][0] == "m"
                clones = [c for c in body.calls if c.name == "clone" and any(o.kind == "call" and o.ref is prod for o in deep_roots(prog, body, c.args[0], TRANSPARENT | {"next", "into_iter"}))]
                fed = fed and moved and not clones
            ctx.ob("R3", "single send site fed by produce_item's items", one and fed, "exactly one tx.send in the walker closure; its payload is moved out of the iteration over produce_item's Vec; no clone of items", where=body.loc())
            # the thread is spawned once and the consumer runs on the calling thread
            spawns = [c for c in rw.calls if c.name == "spawn"]
            cons = [c for c in rw.calls if c.name == "consume_items"]
            ctx.ob("R3", "one producer thread group, one consumer", len(spawns) == 1 and len(cons) == 1, "run_worker spawns once and calls consume_items once", where=rw.loc())

    # ---- R4 -------------------------------------------------------------------------------------
    from . import c11
    table = c11.load_table()
    lr = c11.roots(prog, c11.LOAD_ROOTS)
    hits = []
    for key, row in table.items():
        if row["verdict"] == "FINDING":
            fid = key.split(" | ")[0]
            if fid in P:
                hits.append(key)
    ctx.ob("R4", "FINDING-class panic sites reachable from producers", not hits, "%d" % len(hits) if not hits else "a panic on a walker thread is never joined: the consumer blocks forever: %s" % hits[:3])
