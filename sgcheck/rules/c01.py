"""C01 — search completeness: no kind index or literal prefilter may drop a match."""
import re
from ..query import (self_switches, arm_blocks, calls_in, receiver_roots, option_arms, bool_arms, assigns_ret_variant,
                     deep_roots, ultimate_roots, describe_origin, field_path, proj_variants, TRANSPARENT, closure_consumer)

MATCHER = "ast_grep_core::matcher::Matcher"
RULE = "ast_grep_config::rule::Rule"

EXPLANATION = (
    "Decided: the structural conditions under which skipping work by node kind or by literal substring cannot drop a "
    "match, for all rules/sources because they are statements about all paths of the code. R1 a matcher that evaluates "
    "its sub-matcher on another node than the candidate, or negates it, must not derive a kind set from it (classification "
    "of every Matcher impl from MIR argument provenance); R2 matchers that forward potential_kinds forward it to the value "
    "they match with; R3 Rule dispatches potential_kinds and matching to the same payload per variant; R4 polarity of kind "
    "computation: disjunctions give up (None) when any child is unrestricted, conjunctions never turn an unrestricted child "
    "into an empty set; R5 cached kind sets are computed from the very sub-matchers stored and neither is written after "
    "construction; R6 every skip site tests the kind set of the matcher it then runs, on the not-contained branch, and the "
    "combined scan's kind→rule index is built from and used with the same rule vector; R7 ERROR (wildcard) kinds are never "
    "inserted into a kind set; R8 the literal prefilter honours the pattern's strictness, with the relation 'which "
    "strictness compares which token class' read from match_terminal's own CFG. R9 the one clause of 'overlap-free traversal keeps only "
    "the outermost of nested matches' that has a shape: wherever matches are filtered by comparing a range start with an earlier range "
    "end (today only in the CLI printers; the library uses the tree-structural Visitor), the comparison must put start == end on the "
    "'not nested' side — sibling implementations must agree on the boundary."
)
NOT_DECIDED = (
    "That per-node matching is right (C02/C03); traversal coverage/order and the overlap-free visitor (C19); that "
    "`sg run`/`sg scan` print what the library search returns as values."
)
TRUSTED = ["nightly rustc MIR and trait resolution", "bit-set crate semantics of union_with/intersect_with/contains",
           "table rows: NthChild (other-node but identity-selected), ops::And (second operand receives the node returned by the first), Pattern Terminal arm for ERROR kind — each with its reason in the checker"]

SUBMATCH = {"match_node_with_env", "match_node", "find_node", "do_match", "matches", "match_and_add_label", "find_index"}
NAV = {"parent", "children", "ancestors", "next", "prev", "next_all", "prev_all", "dfs", "child", "field", "child_by_field_id",
       "field_children", "find", "find_all"}


def matcher_impls(prog):
    return prog.impls_of(MATCHER)


def submatch_calls(prog, fn):
    """calls in fn and its closures that evaluate a (sub-)matcher: trait Matcher/MatcherExt methods and the
    workspace helpers that take a matcher"""
    out = []
    for f in prog.family(fn):
        for c in f.calls:
            tr = c.callee.get("trait") or ""
            if (tr.endswith("::Matcher") or tr.endswith("::MatcherExt")) and c.name in ("match_node_with_env", "match_node", "find_node"):
                out.append(c)
            elif c.name in ("do_match", "match_and_add_label", "find_index", "matches") and (c.best.startswith("ast_grep_config::") or c.best.startswith("ast_grep_core::node::Node")):
                out.append(c)
    return out


def node_arg(c):
    """index of the node argument of a sub-match call"""
    if c.name == "matches":
        return 0  # Node::matches(self, matcher)
    return 1


def classify_node(prog, fn, c, cand=2, depth=0):
    """'same' if the node argument is the candidate (param `cand` of `fn`, possibly cloned or captured),
    'result' if it is the node returned by another sub-match, else 'other' + description.  Calls to workspace
    helpers that receive the candidate (find_index, do_match, match_and_add_label) are classified by the
    helper's own body."""
    roots = ultimate_roots(prog, c.fn, c.args[node_arg(c)])
    kinds = set()
    desc = []
    for f, o in roots:
        if o.kind == "param" and not f.is_closure and f.id == fn.id and o.ref == cand:
            kinds.add("same")
        elif o.kind == "param" and f.is_closure:
            kinds.add("other")
            desc.append("closure argument of %s" % f.id.rsplit("::", 1)[-1])
        elif o.kind == "call":
            if o.ref.name in SUBMATCH or (o.ref.callee.get("trait") or "").endswith("Matcher"):
                kinds.add("result")
                desc.append("node returned by %s" % o.ref.name)
            else:
                kinds.add("other")
                desc.append("result of %s" % o.ref.name)
        else:
            kinds.add("other")
            desc.append(describe_origin(f, o))
    # descend into a resolved workspace helper
    tg = prog.call_targets(c)
    if "same" in kinds and len(tg) == 1 and depth < 4 and not (c.callee.get("trait") or "").endswith(("::Matcher", "::MatcherExt")):
        helper = prog.inlined(prog.fns[tg[0]])
        sub = submatch_calls(prog, helper)
        for c2 in sub:
            k2, d2 = classify_node(prog, helper, c2, node_arg(c) + 1, depth + 1)
            kinds |= k2
            desc += ["in %s: %s" % (helper.name, x) for x in d2]
    return kinds, desc


def negating(prog, fn, calls):
    """does the function return Some on the None arm of a sub-match (or feed it to xor/is_none)?"""
    why = []
    for c in calls:
        f = c.fn
        # result flows into xor / is_none / not
        for c2 in f.calls:
            if c2.name in ("xor", "is_none") and c2.args and any(o.kind == "call" and o.ref is c for o in f.trace_operand(c2.args[0])):
                if c2.name == "is_none" and not f.is_closure:
                    # `if sub.is_none() { return None }` is propagation, not negation: negating only if the is_none arm yields Some
                    ba = bool_arms(f, c2)
                    if ba is not None:
                        region = f.reachable_from(ba["true"], stop=[ba["false"]])
                        if not assigns_ret_variant(f, region, "Some"):
                            continue
                why.append("result of %s fed to Option::%s" % (c.name, c2.name))
        arms = option_arms(f, c)
        for nb in arms["none"]:
            blocks = f.reachable_from(nb, stop=arms["some"])
            if assigns_ret_variant(f, blocks, "Some") and not f.is_closure:
                # only if that Some is not also reachable exclusively after another sub-match succeeded
                later = [c3 for c3 in calls if c3.fn is f and c3.bb in blocks and c3 is not c]
                if not later:
                    why.append("`Some` returned on the None arm of %s" % c.name)
    return why


def run(ctx):
    prog = ctx.prog
    for rid, text in (
        ("R1", "a matcher that evaluates a sub-matcher on another node, or negates it, inherits the default potential_kinds (None)"),
        ("R2", "a forwarded potential_kinds goes to the same value that match_node_with_env matches with"),
        ("R3", "Rule: per variant, potential_kinds and match_node_with_env use that variant's payload"),
        ("R4", "kind-set polarity: disjunction returns None when a child is None; conjunction never creates an empty set from a None child"),
        ("R5", "cached kinds are computed from the stored sub-matchers; neither is written after construction"),
        ("R6", "skip sites test the set of the matcher they run, skip on not-contained; combined-scan index built from and used with one rule vector"),
        ("R7", "an ERROR (wildcard) pattern kind is never inserted into a potential-kind set"),
        ("R8", "the literal file prefilter depends on the pattern's strictness consistently with match_terminal"),
        ("R9", "overlap filters over byte ranges separate start < previous end from start >= previous end (half-open ranges: an adjacent match is not nested)"),
        ("R10", "scanning many rules together selects every applicable rule: one bucket per language in RuleCollection (readers take the first bucket), whole-collection accessors visit both storages"),
    ):
        ctx.rule(rid, text)
    from . import rulecoll
    rulecoll.invariants(ctx, "R10", which=("rc2", "rc3", "rc4", "rc5"))
    # `sg run` / `sg scan` search every file the library would: which files reach the scan is decided by path/config filters and by
    # read_file alone (the C17 R5 obligations: walker filters, no metadata-based skip, one reader)
    from . import c17
    from ..core import Ctx
    sub17 = prog.__dict__.get("_c17_sub")
    if sub17 is None:
        sub17 = Ctx("C17", ctx.tier, prog)
        c17.run(sub17)
        prog.__dict__["_c17_sub"] = sub17
    n17 = 0
    for o in sub17.obligations:
        if o["rule"] == "R5":
            n17 += 1
            ctx.ob("R10", "file selection/" + o["key"].split(":", 1)[1], o["ok"], o["detail"], where=o.get("where"), nontrivial=o.get("nontrivial", True))
    ctx.floor("R10", "file-selection obligations shared with C17 R5", n17, 5)
    # scanning several fixable rules together applies what each applies alone: the accept loop of -U/-i assumes document order, so the
    # scan's order must reach it (the C18 R1 obligation; grouping the matches by rule first makes a later rule's non-nested match look
    # "overlapping")
    from . import c18
    sub18 = prog.__dict__.get("_c18_sub")
    if sub18 is None:
        sub18 = Ctx("C18", ctx.tier, prog)
        c18.run(sub18)
        prog.__dict__["_c18_sub"] = sub18
    for o in sub18.obligations:
        if "not re-sorted on its way to the accept loop" in o["key"]:
            ctx.ob("R10", "many rules/" + o["key"].split(":", 1)[1], o["ok"], o["detail"], where=o.get("where"), nontrivial=o.get("nontrivial", True))
    impls = matcher_impls(prog)
    ctx.floor("R1", "Matcher impls", len(impls), 22)
    r1_r2(ctx, impls)
    r2b(ctx, impls)
    r3(ctx)
    r4(ctx)
    r5(ctx)
    r6(ctx)
    r7(ctx)
    r8(ctx)
    r9(ctx)


# ------------------------------------------------------------------------------------------------
def r2b(ctx, impls):
    prog = ctx.prog
    # R2b: a by-name reference must resolve to the same referent in both methods (local registry first; a local hit
    # without kinds must NOT fall through to a global rule of the same name)
    rr = [i for i in impls if i["self"].startswith("ast_grep_config::rule::referent_rule::ReferentRule")]
    if len(rr) != 1:
        ctx.ob("R2", "ReferentRule impl", False, "found %d impls" % len(rr))
    else:
        m = prog.impl_method(rr[0], "match_node_with_env")
        k = prog.impl_method(rr[0], "potential_kinds")
        cm = lookup_chain(prog, m) if m else None
        ck = lookup_chain(prog, k) if k else None
        ok = cm is not None and ck is not None and cm[0] == ck[0] and cm[1] == ck[1]
        if not ok and m and k:
            # the two methods may be written differently: compare what they decide, not how they are spelled
            dm, om = global_only_on_local_miss(prog, m)
            dk, ok_ = global_only_on_local_miss(prog, k)
            if dm and dk and om and ok_:
                ok = True
                cm = (["global registry consulted exactly on a local miss"], True)
                ck = (["global registry consulted exactly on a local miss"], True)
        ctx.ob("R2", "ReferentRule resolves kinds and matches through the same lookup", ok,
               "lookup chain after eval_local — match_node_with_env: %s; potential_kinds: %s%s" % (cm and cm[0], ck and ck[0], "" if ok else " — the two methods can resolve `matches: id` to different rules (local vs global of the same id), so the kind set may belong to a rule that is not the one matched"),
               where=(k or m).loc() if (k or m) else None)


def r1_r2(ctx, impls):
    prog = ctx.prog
    for impl in impls:
        st = impl["self"]
        mfn = prog.impl_method(impl, "match_node_with_env")
        if mfn is None:
            ctx.ob("R1", "Matcher for %s" % st, False, "no match_node_with_env body in facts")
            continue
        mfn = prog.inlined(mfn)
        calls = submatch_calls(prog, mfn)
        cls = set()
        descs = []
        for c in calls:
            k, d = classify_node(prog, mfn, c)
            cls |= k
            descs += d
        neg = negating(prog, mfn, calls)
        inherits = "potential_kinds" in impl.get("inherited", [])
        pk = prog.impl_method(impl, "potential_kinds")
        returns_none_only = False
        if pk is not None:
            somes = assigns_ret_variant(pk, pk.live_blocks, "Some")
            returns_none_only = not somes and not pk.calls
        restricting = not inherits and not returns_none_only
        key = "Matcher for %s" % st
        kind = "no sub-matcher" if not calls else "/".join(sorted(cls)) + (" negating" if neg else "")
        if ("other" in cls or neg) and restricting:
            # table exception: NthChild
            if st.startswith("ast_grep_config::rule::nth_child::NthChild"):
                fi = prog.find_fns(r"nth_child::NthChild::<L>::find_index$")
                sup = False
                if len(fi) == 1:
                    fam = prog.family(fi[0])
                    ids = [c for f in fam for c in f.calls if c.name == "node_id"]
                    pos = [c for f in fam for c in f.calls if c.name == "position"]
                    # node_id is taken both from a sibling (closure argument) and from the candidate `node` parameter
                    from_param = any(any(o.kind == "param" and ff is fi[0] and o.ref == 2 for ff, o in ultimate_roots(prog, c.fn, c.args[0])) for c in ids)
                    sup = bool(pos) and len(ids) >= 2 and from_param
                ctx.ob("R1", key, sup, "other-node matcher with its own potential_kinds (of_rule's): accepted because the index is found by identity (node_id) of the candidate inside the of_rule-filtered sibling list, so the candidate itself must satisfy of_rule — supporting fact %s" % ("present" if sup else "MISSING"), where=mfn.loc())
                continue
            ctx.ob("R1", key, False,
                   "matcher is %s (%s) but defines its own potential_kinds: a kind set derived from the sub-rule says nothing about the candidate node, so FindAllNodes/CombinedScan would skip nodes that match" % (kind, "; ".join(sorted(set(descs + neg)))[:300]),
                   where=(pk or mfn).loc())
            continue
        if "result" in cls and restricting and "other" not in cls:
            # ops::And: second operand sees the node returned by the first
            ctx.ob("R1", key, st.startswith("ast_grep_core::ops::And"),
                   "second sub-matcher receives the node RETURNED by the first (table: library-only `And`; every matcher of ast-grep-core returns its candidate, YAML conjunction is `All`, which re-uses the candidate)", where=mfn.loc())
            continue
        ctx.ob("R1", key, True, "%s; potential_kinds %s" % (kind, "inherited default (None)" if inherits else ("constant None" if returns_none_only else "own")), where=mfn.loc())
        # R2: forwarders
        if pk is not None and restricting:
            pcalls = [c for c in pk.calls if c.name == "potential_kinds"]
            if pcalls:
                mrecv = set()
                helpers = []
                todo = list(calls)
                for c in todo:
                    if c.name in ("match_node_with_env", "match_node", "do_match"):
                        for f, o in receiver_roots(prog, c.fn, c.args[0]):
                            hid = {h.id for h in helpers}
                            if o.kind == "param" and o.ref == 1 and (f.id == mfn.id or f.root == mfn.id or f.id in hid or f.root in hid):
                                tg = prog.call_targets(c)
                                if not field_path(o.proj) and len(tg) == 1 and not (c.callee.get("trait") or "").endswith("Matcher"):
                                    # `self.helper(..)`: the helper (with its own exclusive helpers spliced in) decides which field is matched
                                    if tg[0] not in hid:
                                        hv = prog.inlined(prog.fns[tg[0]])
                                        helpers.append(hv)
                                        todo.extend(submatch_calls(prog, hv))
                                    continue
                                mrecv.add(tuple(field_path(o.proj)[:1]))
                for c in pcalls:
                    precv = {tuple(field_path(o.proj)[:1]) for f, o in receiver_roots(prog, pk, c.args[0]) if o.kind == "param" and o.ref == 1}
                    others = [describe_origin(f, o) for f, o in receiver_roots(prog, pk, c.args[0]) if not (o.kind == "param" and o.ref == 1)]
                    if not precv and others:
                        # e.g. str: builds a Pattern and asks it; ReferentRule: asks the registry entry
                        continue
                    ok = bool(precv & mrecv) or (precv == {()} and mrecv == {()})
                    ctx.ob("R2", "%s/potential_kinds -> %s" % (st, sorted(precv)), ok,
                           "potential_kinds asks self%s; match_node_with_env matches with self%s" % (sorted(precv), sorted(mrecv)), where=pk.loc(c.line))


def lookup_chain(prog, f):
    """For a ReferentRule method: the combinator chain applied to the result of eval_local up to the return value, with, for
    closures handed to a combinator, which registry lookups they perform."""
    start = [c for c in f.calls if c.name == "eval_local"]
    if len(start) != 1:
        return None
    chain = []
    cur = start[0]
    for _ in range(8):
        nxt = None
        for c in f.calls:
            if c is cur or not c.args:
                continue
            if any(o.kind == "call" and o.ref is cur and not o.proj for o in f.trace_operand(c.args[0])):
                nxt = c
                break
        if nxt is None:
            break
        inner = []
        for a in nxt.args[1:]:
            for o in f.trace_operand(a):
                g = None
                if o.kind == "agg" and o.ref[2][1].get("def"):
                    g = prog.fns.get(o.ref[2][1]["def"])
                if g is not None:
                    names = sorted({c2.name for h in prog.family(g) for c2 in h.calls if c2.name in ("eval_local", "eval_global", "flatten")})
                    inner.append("+".join(names))
        chain.append(nxt.name + ("(" + ",".join(inner) + ")" if inner else ""))
        cur = nxt
    ret_ok = any(o.kind == "call" and o.ref is cur for o in f.trace_local(0))
    return chain, ret_ok


def global_only_on_local_miss(prog, f):
    """For a ReferentRule method: is the global registry consulted exactly when the local lookup (eval_local) returned None —
    either `eval_local(..).or_else(|| eval_global(..))` with the or_else applied to eval_local's own result (no flatten/and_then in
    between, which would turn 'local rule without an answer' into a miss), or an explicit test of eval_local's result whose None arm
    dominates the eval_global call.  Returns (decided, ok)."""
    loc = [c for c in f.calls if c.name == "eval_local" and c.bb in f.live_blocks]
    if len(loc) != 1:
        return False, False
    loc = loc[0]
    direct = [c for c in f.calls if c.name == "eval_global" and c.bb in f.live_blocks]
    if direct:
        arms = option_arms(f, loc)
        ok = bool(arms["none"]) and all(any(f.dominates(nb, c.bb) or nb == c.bb for nb in arms["none"]) for c in direct)
        return True, ok
    for g in prog.closures_of(f):
        if not any(c.name == "eval_global" for h in prog.family(g) for c in h.calls):
            continue
        cons = closure_consumer(prog, g)
        if not cons or cons[0].id != f.id:
            continue
        c = cons[1]
        if c.name not in ("or_else", "or", "unwrap_or_else", "map_or_else") or not c.args or c.args[0][0] == "k":
            return True, False
        recv = f.trace_operand(c.args[0])
        ok = bool(recv) and all(o.kind == "call" and o.ref.name == "eval_local" and not o.proj for o in recv)
        return True, ok
    return False, False


# ------------------------------------------------------------------------------------------------
def r3(ctx):
    prog = ctx.prog
    adt = prog.adts.get(RULE)
    if adt is None:
        ctx.ob("R3", "Rule adt", False, "enum Rule not found")
        return
    variants = [v["name"] for v in adt["variants"]]
    ctx.floor("R3", "Rule variants", len(variants), 13)
    impl = [i for i in prog.impls_of(MATCHER) if i["self"].startswith(RULE + "<")]
    if len(impl) != 1:
        ctx.ob("R3", "impl Matcher for Rule", False, "found %d impls" % len(impl))
        return
    for method, accept in (("potential_kinds", {"potential_kinds"}), ("match_node_with_env", {"match_node_with_env", "match_and_add_label"})):
        fn = prog.impl_method(impl[0], method)
        sws = self_switches(fn, re.escape(RULE)) if fn else []
        if not sws:
            ctx.ob("R3", "Rule::%s/switch" % method, False, "no match over self")
            continue
        bi, si = sws[0]
        arms = arm_blocks(fn, si)
        for v in variants:
            calls = [c for c in calls_in(prog, fn, arms.get(v, set())) if c.name in accept]
            hit = None
            payload_ty = next((x["fields"][0]["ty"] for x in adt["variants"] if x["name"] == v and x["fields"]), "")
            payload_head = re.sub(r"^(alloc::boxed::Box<|&)+", "", payload_ty).split("<", 1)[0]
            for c in calls:
                # receiver (or first argument for the free helper) must be this variant's payload …
                for f, o in receiver_roots(prog, c.fn, c.args[0]):
                    if f is fn and o.kind == "param" and o.ref == 1 and v in proj_variants(o.proj):
                        # … and the method must be the payload type's own (not that of something inside it, e.g. Not::inner())
                        st = (c.callee.get("self") or (c.callee.get("targs") or [""])[-1] if c.name == "match_and_add_label" else (c.callee.get("self") or ""))
                        st_head = re.sub(r"^(alloc::boxed::Box<|&)+", "", st or "").split("<", 1)[0]
                        if c.name == "match_and_add_label":
                            targs = c.callee.get("targs") or []
                            st_head = re.sub(r"^(alloc::boxed::Box<|&)+", "", targs[-1] if targs else "").split("<", 1)[0]
                        if st_head == payload_head or not st_head:
                            hit = c
            if hit is None and method == "potential_kinds":
                # returning None for a variant is always sound
                nones = assigns_ret_variant(fn, arms.get(v, set()), "None")
                if nones and not calls:
                    ctx.ob("R3", "Rule::%s/%s" % (method, v), True, "arm returns None (no restriction)", where=fn.loc())
                    continue
            ctx.ob("R3", "Rule::%s/%s" % (method, v), hit is not None,
                   ("arm %s calls %s on its own payload" % (v, hit.best)) if hit else "arm %s does not call %s on the payload of variant %s (calls: %s)" % (v, sorted(accept), v, [c.best for c in calls][:3]),
                   where=fn.loc(hit.line if hit else None))
    # the helper forwards to the matcher it is given, on the node it is given
    mal = prog.find_fns(r"^ast_grep_config::rule::match_and_add_label$")
    if len(mal) == 1:
        f = mal[0]
        cs = [c for c in f.calls if c.name == "match_node_with_env"]
        ok = len(cs) == 1 and any(o.kind == "param" and o.ref == 1 for o in f.trace_operand(cs[0].args[0])) and any(o.kind == "param" and o.ref == 2 for o in f.trace_operand(cs[0].args[1]))
        ctx.ob("R3", "match_and_add_label forwards", ok, "match_and_add_label(inner, node, env) calls inner.match_node_with_env(node, ..)", where=f.loc())
    else:
        ctx.ob("R3", "match_and_add_label anchor", False, "resolved to %d functions" % len(mal))


# ------------------------------------------------------------------------------------------------
SHRINK = {"intersect_with", "intersection", "difference_with", "difference", "symmetric_difference_with", "clear", "remove", "retain", "truncate"}
EMPTY_CTORS = {"new", "default", "with_capacity", "from_bit_vec", "clear"}


def bitset_calls(fn):
    return [c for c in fn.calls if "bit_set::BitSet" in (c.best or "") or "bit_set::BitSet" in (c.callee.get("impl_self") or "")]


def kind_combiners(prog, root_pats):
    """functions of ast-grep-core reachable from the given constructors/impl methods that ask children for their
    potential_kinds (the functions that combine kind sets)"""
    out = []
    def exact_reach(start):
        seen, st = set(), [start]
        while st:
            x = st.pop()
            if x in seen or x not in prog.fns:
                continue
            seen.add(x)
            for g in prog.family(prog.fns[x]):
                for c in g.calls:
                    r_ = c.callee.get("res")
                    if r_ and c.callee.get("res_kind") != "virtual" and r_ in prog.fns:
                        st.append(r_)
        return seen

    for pat in root_pats:
        for r in prog.find_fns(pat):
            for fid in sorted(exact_reach(r.id)):
                f = prog.fns.get(fid)
                if f is None or f.crate != "ast_grep_core" or f.is_closure:
                    continue
                fam_calls = [c for g in prog.family(f) for c in g.calls]
                if any(c.name == "potential_kinds" and (c.callee.get("trait") or "").endswith("::Matcher") and not c.callee.get("res") for c in fam_calls) and f not in out:
                    out.append(f)
    return out


def r4(ctx):
    prog = ctx.prog
    disj_roots = [r"^ast_grep_core::ops::Any::<L, P>::new$", r"^<ast_grep_core::ops::Or<L, P1, P2> as ast_grep_core::matcher::Matcher<L>>::potential_kinds$"]
    conj_roots = [r"^ast_grep_core::ops::All::<L, P>::new$", r"^<ast_grep_core::ops::And<L, P1, P2> as ast_grep_core::matcher::Matcher<L>>::potential_kinds$"]
    for pat in disj_roots + conj_roots:
        ctx.anchor("R4", pat)
    disj = kind_combiners(prog, disj_roots)
    conj = kind_combiners(prog, conj_roots)
    ctx.floor("R4", "disjunctive kind combiners", len(disj), 2)
    ctx.floor("R4", "conjunctive kind combiners", len(conj), 2)
    for f in disj:
        pcs = [c for c in f.calls if c.name == "potential_kinds"]
        for i, c in enumerate(pcs):
            arms = option_arms(f, c)
            key = "disjunctive %s/child#%d None arm" % (short_id(f), i)
            if not arms["none"]:
                ctx.ob("R4", key, False, "cannot find where the None result of the child's potential_kinds goes (unclassified idiom)", where=f.loc(c.line))
                continue
            bad = []
            for nb in arms["none"]:
                blocks = f.reachable_from(nb)
                if assigns_ret_variant(f, blocks, "Some"):
                    bad.append("a `Some(..)` return is reachable")
                if any(c2.bb in blocks and c2.name == "potential_kinds" for c2 in pcs):
                    bad.append("the loop continues to the next child")
                if any(c2.bb in blocks and c2.name in ("union_with", "insert", "extend") for c2 in f.calls):
                    bad.append("the set is still being built")
            ctx.ob("R4", key, not bad, "when a child is unrestricted (None) the disjunction %s" % ("returns None" if not bad else "does NOT give up: " + "; ".join(sorted(set(bad))) + " — the union would miss that child's kinds"), where=f.loc(c.line))
        muts = [c.name for c in bitset_calls(f) if c.name in SHRINK]
        ctx.ob("R4", "disjunctive %s/mutators" % short_id(f), not muts, "set operations used: %s" % sorted({c.name for c in bitset_calls(f)}), where=f.loc())
    for f in conj:
        fam = prog.family(f)
        empties = [c for g in fam for c in bitset_calls(g) if c.name in EMPTY_CTORS or c.name in ("difference_with", "difference", "remove", "clear", "symmetric_difference_with")]
        ctx.ob("R4", "conjunctive %s/no empty set" % short_id(f), not empties,
               "conjunction never manufactures an empty/shrunk-by-difference set (calls: %s)" % sorted({c.name for g in fam for c in bitset_calls(g)}) if not empties else
               "conjunction creates or clears a BitSet (%s): an unrestricted child (None) could become the empty set and every candidate would be skipped" % [c.name for c in empties], where=f.loc())


def short_id(f):
    m = re.search(r"ops::(\w+)", f.id)
    return "%s::%s" % (m.group(1), f.name) if m and "::" in f.id.split("ops::", 1)[1] else f.id.rsplit("::", 1)[-1]


# ------------------------------------------------------------------------------------------------
def r5(ctx):
    prog = ctx.prog
    for adt, ctor, src_field, compute in (
        ("ast_grep_core::ops::All", r"^ast_grep_core::ops::All::<L, P>::new$", "patterns", "compute_kinds"),
        ("ast_grep_core::ops::Any", r"^ast_grep_core::ops::Any::<L, P>::new$", "patterns", "compute_kinds"),
        ("ast_grep_config::rule_core::RuleCore", r"^ast_grep_config::rule_core::RuleCore::<L>::new$", "rule", "potential_kinds"),
    ):
        rx = "^" + re.escape(adt) + "$"
        for field in ("kinds", src_field):
            for f, bi, kind, line in prog.field_writes(rx, field):
                ctx.ob("R5", "%s.%s %s in %s" % (adt.rsplit("::", 1)[-1], field, kind, f.id), False,
                       "field %s of a kind-caching matcher is written/mutably borrowed after construction: the cached set can go stale" % field, where=f.loc(line))
        aggs = prog.aggregates_of(rx)
        n = 0
        for f, bi, si, s in aggs:
            n += 1
            fields = s[2][1]["fields"]
            ops = dict(zip(fields, s[2][2]))
            kroots = deep_roots(prog, f, ops["kinds"], TRANSPARENT - {"clone"})
            sroots = deep_roots(prog, f, ops[src_field], TRANSPARENT - {"clone"})
            ok = False
            why = ""
            for k in kroots:
                if k.kind == "call" and k.ref.name == compute:
                    # computed from the very value stored
                    arg = deep_roots(prog, f, k.ref.args[0])
                    a = {(o.kind, o.ref if o.kind != "call" else id(o.ref)) for o in arg}
                    b = {(o.kind, o.ref if o.kind != "call" else id(o.ref)) for o in sroots}
                    if a & b:
                        ok, why = True, "kinds = %s(the %s stored)" % (compute, src_field)
                    else:
                        why = "kinds computed from {%s} but %s stored is {%s}" % ("; ".join(describe_origin(f, o) for o in arg), src_field, "; ".join(describe_origin(f, o) for o in sroots))
                elif k.kind == "param" and any(o.kind == "param" and o.ref == k.ref for o in sroots) and "kinds" in field_path(k.proj):
                    ok, why = True, "kinds and %s copied together from one existing value (..self)" % src_field
                elif k.kind == "agg" and k.ref[2][1].get("variant") == "None":
                    ok, why = True, "kinds = None (no restriction)"
                elif k.kind == "const":
                    ok, why = True, "kinds = constant None"
            ctx.ob("R5", "%s constructed in %s" % (adt.rsplit("::", 1)[-1], f.id), ok, why or "kinds from {%s}" % "; ".join(describe_origin(f, o) for o in kroots), where=f.loc(s[3]))
        ctx.floor("R5", "%s constructors" % adt.rsplit("::", 1)[-1], n, 1)
    # the guard reads the same field potential_kinds returns
    for pat_pk, pat_m in (
        (r"^<ast_grep_core::ops::All<L, P> as ast_grep_core::matcher::Matcher<L>>::potential_kinds$", r"^<ast_grep_core::ops::All<L, P> as ast_grep_core::matcher::Matcher<L>>::match_node_with_env$"),
        (r"^<ast_grep_core::ops::Any<L, M> as ast_grep_core::matcher::Matcher<L>>::potential_kinds$", r"^<ast_grep_core::ops::Any<L, M> as ast_grep_core::matcher::Matcher<L>>::match_node_with_env$"),
        (r"^<ast_grep_config::rule_core::RuleCore<L> as ast_grep_core::matcher::Matcher<L>>::potential_kinds$", r"^ast_grep_config::rule_core::RuleCore::<L>::do_match$"),
    ):
        pk = ctx.anchor("R5", pat_pk)
        if pk:
            rets = []
            for bi in pk.return_blocks():
                pass
            roots = []
            for c in pk.calls:
                if c.name == "clone":
                    roots += deep_roots(prog, pk, c.args[0])
            ok = any(o.kind == "param" and o.ref == 1 and field_path(o.proj)[:1] == ["kinds"] for o in roots) and len(pk.calls) == 1
            how = "potential_kinds returns self.kinds.clone()"
            if not ok:
                # recomputing from the stored sub-matcher is equivalent to the cache (R5 constructor rule)
                pcs = [c for c in pk.calls if c.name == "potential_kinds"]
                if len(pcs) == 1 and len(pk.calls) == 1:
                    rr = deep_roots(prog, pk, pcs[0].args[0])
                    if any(o.kind == "param" and o.ref == 1 and field_path(o.proj)[:1] == ["rule"] for o in rr):
                        ok, how = True, "potential_kinds recomputes self.rule.potential_kinds(), the expression the cache was computed from"
            ctx.ob("R5", "%s agrees with the cache" % pk.id, ok, how, where=pk.loc())


# ------------------------------------------------------------------------------------------------
def skip_site(ctx, prog, fn, key, match_names, loop_head_names=("next",)):
    """generic check of `if !set.contains(kind) {skip}`: the contains call's false arm must not reach a
    sub-match call (before the loop head), the true arm must."""
    fn = prog.inlined(fn)
    fam = prog.family(fn)
    found = 0
    for f in fam:
        cont = [c for c in f.calls if c.name == "contains" and "BitSet" in c.best]
        for c in cont:
            found += 1
            arms = bool_arms(f, c)
            # loop heads that enclose the test (the candidate loop of FindAllNodes); a loop that starts after the test — All/Any
            # iterating their sub-matchers — is part of the guarded region
            heads = [c2.bb for c2 in f.calls if c2.name in loop_head_names and "Iterator" in (c2.callee.get("trait") or "") and f.dominates(c2.bb, c.bb)]
            mcalls = [c2 for c2 in f.calls if c2.name in match_names]
            if arms is None and f.is_closure:
                # iterator form: `.filter(|cand| kinds.contains(kind))…find_map(|cand| matcher.match_node(cand))` — the closure's result
                # must be the contains() result itself (or a constant true on the unrestricted arm), never its negation, and the
                # matcher must run downstream of that filter
                cons = closure_consumer(prog, f)
                rets, neg = [], False
                for bi in f.live_blocks:
                    for st in f.blocks[bi]["s"]:
                        if st[0] == "A" and st[1][0] == 0 and not st[1][1]:
                            if st[2][0] == "use" and st[2][1][0] == "k":
                                rets.append(st[2][1][1].get("v"))
                            elif st[2][0] == "use":
                                rets.append("contains" if any(o.kind == "call" and o.ref is c for o in f.trace_operand(st[2][1])) else "?")
                            elif st[2][0] == "un":
                                neg = True
                    c0 = f.call_at(bi)
                    if c0 is c and c.dest and c.dest[0] == 0:
                        rets.append("contains")
                downstream = [g for g in fam if g.is_closure and g is not f and any(c3.name in match_names for c3 in g.calls)]
                okf = cons is not None and cons[1].name == "filter" and not neg and "contains" in rets and set(rets) <= {"contains", "true"} and bool(downstream)
                ctx.ob("R6", key + "/polarity", okf,
                       "filter closure keeps a candidate iff its kind is contained (or the matcher is unrestricted); the matcher runs downstream of the filter" if okf else
                       "the kind filter closure does not return contains() positively (returns %s, negated=%s, consumer %s)" % (sorted(set(map(str, rets))), neg, cons[1].name if cons else None), where=f.loc(c.line))
                continue
            if arms is None:
                ctx.ob("R6", key + "/contains", False, "cannot find the branch on BitSet::contains", where=f.loc(c.line))
                continue
            fb = f.reachable_from(arms["false"], stop=heads)
            tb = f.reachable_from(arms["true"], stop=heads)
            bad_false = [m for m in mcalls if m.bb in fb]
            good_true = [m for m in mcalls if m.bb in tb] or any(g.is_closure for g in fam if g is not f and any(c3.name in match_names for c3 in g.calls))
            ctx.ob("R6", key + "/polarity", not bad_false and bool(good_true),
                   "not-contained branch %s the matcher; contained branch %s it" % ("still runs" if bad_false else "skips", "runs" if good_true else "does NOT run"), where=f.loc(c.line))
            # the set tested comes from the matcher that is run
            sroots = receiver_roots(prog, f, c.args[0], TRANSPARENT | {"potential_kinds"})
            ctx.note("%s: set tested comes from %s" % (key, "; ".join(describe_origin(ff, o) for ff, o in sroots)))
    return found


def r6(ctx):
    prog = ctx.prog
    fan = ctx.anchor("R6", r"^<ast_grep_core::matcher::FindAllNodes<'tree, D, M> as core::iter::traits::iterator::Iterator>::next$")
    if fan:
        n = skip_site(ctx, prog, fan, "FindAllNodes::next", {"match_node", "match_node_with_env"})
        ctx.floor("R6", "FindAllNodes skip sites", n, 1)
        # …and the kind test is the ONLY way a candidate avoids the matcher: no second prefilter (node width, named-ness, text) between the
        # traversal and match_node — find_all must agree with trying the matcher on every node
        from ..query import path_avoiding, iter_chain, DROPPING_ITER
        fi = prog.inlined(fan)
        heads = [c for c in fi.calls if c.name == "next" and fi.in_loop(c.bb) and "Iterator" in (c.callee.get("trait") or "")]
        mcs = [c for c in fi.calls if c.name in ("match_node", "match_node_with_env") and c.bb in fi.live_blocks]
        if heads and mcs and any(fi.in_loop(m.bb) for m in mcs):
            h = [c for c in heads if fi.dominates(c.bb, mcs[0].bb)][-1:] or heads[:1]
            arms = option_arms(fi, h[0])
            allowed = []
            for c in fi.calls:
                if c.name == "contains" and "BitSet" in c.best:
                    ba = bool_arms(fi, c)
                    if ba:
                        allowed.append(ba["false"])
            skipping = [sb for sb in arms["some"] if path_avoiding(fi, sb, [m.bb for m in mcs] + allowed, [h[0].bb])]
            ctx.ob("R6", "FindAllNodes::next/only the kind test skips a candidate", bool(arms["some"]) and not skipping,
                   "every path from a traversed node to the next one passes the matcher or the not-contained arm of the kind test" if not skipping else
                   "a traversed node can be skipped without the matcher being tried and without failing the kind test (from bb%s): find_all then misses nodes that the matcher, "
                   "tried on each node, accepts" % skipping, where=fan.loc())
        else:
            # iterator form: dfs.filter(kind test).find_map(match_node): no other element-dropping adaptor in the pipeline
            drops = []
            for g in prog.family(fi):
                for c in g.calls:
                    if c.name in ("find_map", "filter_map", "find") and c.args:
                        ad, _ = iter_chain(prog, g, c.args[0])
                        for ff, a in ad:
                            if a.name in DROPPING_ITER:
                                kind_test = any(cc.name == "contains" and "BitSet" in cc.best for gg in prog.closures_of(ff) for cc in gg.calls
                                                if (closure_consumer(prog, gg) or (None, None))[1] is not None and closure_consumer(prog, gg)[1].line == a.line)
                                if not kind_test:
                                    drops.append(a.name)
            ctx.ob("R6", "FindAllNodes::next/only the kind test skips a candidate", not drops,
                   "iterator form: the only element-dropping adaptor is the kind filter" if not drops else
                   "candidates pass through %s besides the kind filter before the matcher is tried" % drops, where=fan.loc())
        ffam = prog.family(fan)
        pk = [c for g in ffam for c in g.calls if c.name == "potential_kinds"]
        mn = [c for g in ffam for c in g.calls if c.name in ("match_node", "match_node_with_env")]
        same = False
        if pk and mn:
            a = {tuple(field_path(o.proj)) for f, o in receiver_roots(prog, pk[0].fn, pk[0].args[0]) if o.kind == "param" and o.ref == 1 and not f.is_closure}
            b = {tuple(field_path(o.proj)) for f, o in receiver_roots(prog, mn[0].fn, mn[0].args[0]) if o.kind == "param" and o.ref == 1 and not f.is_closure}
            same = bool(a & b)
        ctx.ob("R6", "FindAllNodes::next/same matcher", same, "potential_kinds and match_node are called on the same field of self", where=fan.loc())
        # candidate tested == candidate matched
        kid = [c for g in ffam for c in g.calls if c.name == "kind_id"]
        samec = False
        if kid and mn:
            def src(c, a):
                # the candidate as an origin in the parent: a call result there, or the item of an iterator rooted at a field of self
                out = set()
                for f, o in receiver_roots(prog, c.fn, a, TRANSPARENT | {"filter", "map", "inspect", "by_ref", "into_iter", "next"}):
                    if not f.is_closure or o.kind != "param":
                        out.add((o.kind, o.ref if o.kind != "call" else id(o.ref), tuple(field_path(o.proj))))
                return out
            samec = bool(src(kid[0], kid[0].args[0]) & src(mn[0], mn[0].args[1]))
        ctx.ob("R6", "FindAllNodes::next/same candidate", samec, "the kind tested is the kind of the candidate that is matched", where=fan.loc())
    for pat, key, names in (
        (r"^<ast_grep_core::ops::All<L, P> as ast_grep_core::matcher::Matcher<L>>::match_node_with_env$", "All guard", {"match_node_with_env"}),
        (r"^<ast_grep_core::ops::Any<L, M> as ast_grep_core::matcher::Matcher<L>>::match_node_with_env$", "Any guard", {"match_node_with_env"}),
        (r"^ast_grep_config::rule_core::RuleCore::<L>::do_match$", "RuleCore guard", {"match_node_with_env"}),
    ):
        f = ctx.anchor("R6", pat)
        if f:
            n = skip_site(ctx, prog, f, key, names)
            ctx.floor("R6", key, n, 1)
            # tests self.kinds with the kind of param node
            for c in [c for c in f.calls if c.name == "contains" and "BitSet" in c.best]:
                a = [o for o in deep_roots(prog, f, c.args[0]) if o.kind == "param" and o.ref == 1 and "kinds" in field_path(o.proj)]
                kid = [o for o in deep_roots(prog, f, c.args[1], TRANSPARENT | {"kind_id"}) if o.kind == "param" and o.ref == 2]
                ctx.ob("R6", key + "/operands", bool(a) and bool(kid), "guard tests self.kinds against the kind of the candidate parameter", where=f.loc(c.line))
    # CombinedScan
    new = ctx.anchor("R6", r"^ast_grep_config::combined::CombinedScan::<'r, L>::new$")
    scan = ctx.anchor("R6", r"^ast_grep_config::combined::CombinedScan::<'r, L>::scan$")
    # the two fields by their types (names may change): the rule vector and the kind -> rule-index table
    F_RULES, F_TABLE = "rules", "kind_rule_mapping"
    cs_adt = prog.adts.get("ast_grep_config::combined::CombinedScan")
    if cs_adt:
        for fd in cs_adt["variants"][0]["fields"]:
            if re.search(r"^alloc::vec::Vec<alloc::vec::Vec<usize", fd["ty"]):
                F_TABLE = fd["name"]
            elif re.search(r"^alloc::vec::Vec<&.*RuleConfig<", fd["ty"]):
                F_RULES = fd["name"]
    if new:
        pk = [c for c in new.calls if c.name == "potential_kinds"]
        en = [c for c in new.calls if c.name == "enumerate"]
        nx = [c for c in new.calls if c.name == "next" and "Enumerate" in c.best]
        pushes = [c for c in new.calls if c.name == "push"]
        ok_src = False
        if pk and nx:
            ok_src = any(o.kind == "call" and o.ref is nx[0] for o in deep_roots(prog, new, pk[0].args[0], TRANSPARENT | {"deref"}))
        ctx.ob("R6", "CombinedScan::new/kinds of the enumerated rule", ok_src, "potential_kinds is asked of the rule yielded by rules.iter().enumerate()", where=new.loc())
        idx_ok = False
        for c in pushes:
            if len(c.args) > 1 and any(o.kind == "call" and nx and o.ref is nx[0] for o in deep_roots(prog, new, c.args[1])):
                idx_ok = True
        ctx.ob("R6", "CombinedScan::new/index of the enumerated rule", idx_ok, "the index pushed into the kind table is the enumerate() index of that same rule", where=new.loc())
        # every kind the rule may match is registered: in the loop over the kind set each iteration reaches the push of the rule index
        # (a bounds-guarded `if let Some(slot) = table.get_mut(kind)` silently leaves out ERROR = 65535, the one kind id outside the grammar's count)
        from ..query import path_avoiding as _pa
        knext = [c for c in new.calls if c.name == "next" and "bit_set" in c.best and new.in_loop(c.bb)]
        idx_push = [c for c in pushes if len(c.args) > 1 and any(o.kind == "call" and nx and o.ref is nx[0] for o in deep_roots(prog, new, c.args[1]))]
        reg_ok = bool(knext) and bool(idx_push)
        for c in knext:
            arms = option_arms(new, c)
            if not arms["some"] or any(_pa(new, sb, [p_.bb for p_ in idx_push], [c.bb]) for sb in arms["some"]):
                reg_ok = False
        ctx.ob("R6", "CombinedScan::new/every potential kind is registered", reg_ok,
               "each kind yielded by the rule's kind set reaches `table[kind].push(idx)` before the next kind is fetched" if reg_ok else
               "a kind of the rule's kind set can be skipped without registering the rule under it (conditional push): nodes of that kind are never dispatched to the rule", where=new.loc())
        # no mutation of `rules` after the loop head; aggregate stores the same vector
        muts = [c for c in new.calls if re.search(r"::(sort\w*|reverse|retain|dedup\w*|swap|remove|insert|push|truncate|drain|pop|rotate\w*)$", c.best)
                and any(o.kind == "param" and o.ref == 1 for o in deep_roots(prog, new, c.args[0], TRANSPARENT | {"deref_mut", "as_mut_slice"}))]
        late = [c for c in muts if nx and not (new.dominates(c.bb, nx[0].bb) and nx[0].bb not in new.reachable_from(nx[0].bb) - {nx[0].bb} or new.dominates(c.bb, en[0].bb if en else nx[0].bb))]
        ctx.ob("R6", "CombinedScan::new/rules not reordered after indexing", not late,
               "mutations of the rule vector (%s) all happen before the indexing loop" % [c.name for c in muts] if not late else "rule vector mutated by %s after/while the kind→index table is built: indices no longer denote the rules they were computed for" % [c.name for c in late], where=new.loc())
        aggs = [(f, bi, si, s) for f, bi, si, s in prog.aggregates_of(r"^ast_grep_config::combined::CombinedScan$")]
        for f, bi, si, s in aggs:
            ops = dict(zip(s[2][1]["fields"], s[2][2]))
            r_ok = f is new and any(o.kind == "param" and o.ref == 1 for o in deep_roots(prog, f, ops[F_RULES]))
            ctx.ob("R6", "CombinedScan constructed in %s" % f.id, r_ok, "CombinedScan.rules is the (sorted) vector that was indexed", where=f.loc(s[3]))
        for field in (F_RULES, F_TABLE):
            for f, bi, kind, line in prog.field_writes(r"^ast_grep_config::combined::CombinedScan$", field):
                ctx.ob("R6", "CombinedScan.%s %s in %s" % (field, kind, f.id), False, "index/rule vector written after construction", where=f.loc(line))
    if scan:
        fam = prog.family(scan)
        gets = [c for c in scan.calls if c.name == "get" and any(o.kind == "param" and o.ref == 1 and F_TABLE in field_path(o.proj) for o in deep_roots(prog, scan, c.args[0], TRANSPARENT | {"deref"}))]
        mn = [c for c in scan.calls if c.name == "match_node"]
        ok = False
        if gets and mn:
            kroots = deep_roots(prog, scan, gets[0].args[1], TRANSPARENT | {"kind_id"})
            nroots = deep_roots(prog, scan, mn[0].args[1])
            a = {(o.kind, o.ref if o.kind != "call" else id(o.ref)) for o in kroots}
            b = {(o.kind, o.ref if o.kind != "call" else id(o.ref)) for o in nroots}
            ok = bool(a & b)
        ctx.ob("R6", "CombinedScan::scan/lookup by the candidate's kind", ok, "kind_rule_mapping is indexed with kind_id() of the node that is then matched", where=scan.loc())
        # the rule matched is rules[idx] with idx from that table entry
        idxs = [c for c in scan.calls if c.name == "index" and any(o.kind == "param" and o.ref == 1 and F_RULES in field_path(o.proj) for o in deep_roots(prog, scan, c.args[0], TRANSPARENT | {"deref"}))]
        ok2 = False
        if idxs and mn and gets:
            recv = deep_roots(prog, scan, mn[0].args[0], TRANSPARENT | {"index"})
            ok2 = any(o.kind == "param" and o.ref == 1 and F_RULES in field_path(o.proj) for o in recv)
            iroots = deep_roots(prog, scan, idxs[0].args[1], (TRANSPARENT | {"next", "into_iter", "iter"}) - {"get"})
            ok2 = ok2 and any(o.kind == "call" and o.ref is gets[0] for o in iroots)
        ctx.ob("R6", "CombinedScan::scan/rule by table index", ok2, "the matcher run is self.rules[idx].matcher with idx read from the table entry of that kind", where=scan.loc())
        # every node and every rule indexed under its kind is tried: the two loops end only when their iterator is exhausted
        # (an early `break`/`return` after the first match would silently drop the other rules' matches on that node)
        from .c13 import loop_of
        nexts = [c for c in scan.calls if c.name == "next" and "Iterator" in (c.callee.get("trait") or "") and scan.in_loop(c.bb)]
        for c in nexts:
            body = loop_of(scan, c.bb)
            arms = option_arms(scan, c)
            normal = set(arms["none"])
            early = sorted({s2 for b in body for s2 in scan.succ[b] if s2 not in body and s2 not in normal})
            what = "nodes (dfs)" if "Pre" in c.best or "traversal" in c.best else ("rule indices of the node's kind" if "slice::iter::Iter" in c.best else c.best.split("<")[1][:40] if "<" in c.best else c.best)
            ctx.ob("R6", "CombinedScan::scan/loop over %s runs to exhaustion#%d" % (what, nexts.index(c)), not early,
                   "the loop is left only when its iterator returns None" if not early else "the loop can be left early (edge to bb%s): candidates or rules after the exit point are never tried" % early, where=scan.loc(c.line))
        # every node the traversal yields is looked up in the table: no path from the Some arm of the traversal's next() back to
        # the loop head avoids the lookup (a `continue` on some node property — named-ness, leaf-ness, text — placed before the
        # lookup is a second, unsound prefilter: Pattern::potential_kinds may name anonymous token kinds, e.g. for `pass`/`debugger`)
        if gets:
            from ..query import path_avoiding
            dfs_next = [c for c in nexts if "slice::iter::Iter" not in c.best and scan.dominates(c.bb, gets[0].bb) and gets[0].bb in loop_of(scan, c.bb)]
            ctx.ob("R6", "CombinedScan::scan/traversal loop found", bool(dfs_next), "the loop whose next() dominates the kind lookup", where=scan.loc())
            for c in dfs_next[-1:]:
                arms = option_arms(scan, c)
                skipping = [s for s in arms["some"] if path_avoiding(scan, s, [gets[0].bb], [c.bb])]
                ctx.ob("R6", "CombinedScan::scan/every traversed node is looked up", bool(arms["some"]) and not skipping,
                       "every path from the traversal's Some arm to the next iteration passes the kind_rule_mapping lookup" if not skipping else
                       "a node can be skipped before the kind_rule_mapping lookup (path from bb%s back to the loop head avoiding the lookup): "
                       "a second prefilter in front of the kind index drops matches whose kind is indexed" % skipping, where=scan.loc(c.line))
        # the None arm of the table lookup only skips (continue): never returns / breaks
        if gets:
            arms = option_arms(scan, gets[0])
            heads = [c2.bb for c2 in scan.calls if c2.name == "next"]
            bad = False
            for nb in arms["none"]:
                blocks = scan.reachable_from(nb, stop=heads)
                if any(scan.blocks[b]["t"][0] == "ret" for b in blocks):
                    bad = True
            ctx.ob("R6", "CombinedScan::scan/no-rule kinds only skip the node", bool(arms["none"]) and not bad, "a kind without rules continues with the next node (no early exit)", where=scan.loc())


# ------------------------------------------------------------------------------------------------
def r7(ctx):
    prog = ctx.prog
    pk = ctx.anchor("R7", r"^<ast_grep_core::matcher::pattern::Pattern<L> as ast_grep_core::matcher::Matcher<L>>::potential_kinds$")
    if not pk:
        return
    sws = self_switches(pk, r"PatternNode")
    if not sws:
        ctx.ob("R7", "Pattern::potential_kinds/switch", False, "no match over self.node", where=pk.loc())
        return
    bi, si = sws[0]
    arms = arm_blocks(pk, si)
    for v in sorted(si["arms"]):
        blocks = arms.get(v, set())
        guard = [c for c in pk.calls if c.bb in blocks and c.name == "is_error_kind"]
        if v == "Internal":
            ok = False
            for c in guard:
                ba = bool_arms(pk, c)
                if ba and assigns_ret_variant(pk, pk.reachable_from(ba["true"], stop=[ba["false"]]), "None"):
                    ok = True
            ctx.ob("R7", "Pattern::potential_kinds/Internal", ok, "Internal arm returns None when the pattern node's kind is ERROR" if ok else "Internal arm inserts kind_id without excluding the ERROR wildcard: a pattern that parsed with a syntax error would only be tried on ERROR nodes", where=pk.loc())
        elif v == "MetaVar":
            # root_kind is compared exactly in match_node_with_env (no wildcard): consistent
            m = prog.find_fns(r"^<ast_grep_core::matcher::pattern::Pattern<L> as ast_grep_core::matcher::Matcher<L>>::match_node_with_env$")
            ok = False
            if len(m) == 1:
                f = m[0]
                # an exact Ne/Eq comparison between node.kind_id() and self.root_kind payload, leading to return None
                for bb in f.live_blocks:
                    for s in f.blocks[bb]["s"]:
                        if s[0] == "A" and s[2][0] == "bin" and s[2][1] in ("Ne", "Eq"):
                            ok = True
            ctx.ob("R7", "Pattern::potential_kinds/MetaVar", ok, "MetaVar arm uses root_kind, which match_node_with_env compares exactly (no ERROR wildcard on this path)", where=pk.loc())
        elif v == "Terminal":
            ctx.ob("R7", "Pattern::potential_kinds/Terminal", True,
                   "table row: a Terminal pattern node of ERROR kind is a leaf the lexer could not tokenise; match_terminal accepts any kind for it only with identical text; no text is known that is an ERROR leaf alone and a non-ERROR node elsewhere (searched; see DESIGN §3 F6) — accepted, guard %s" % ("present" if guard else "absent"),
                   where=pk.loc(), nontrivial=False)
    # nobody else inserts pattern kinds into a BitSet returned from potential_kinds
    for impl in prog.impls_of(MATCHER):
        f = prog.impl_method(impl, "potential_kinds")
        if f is None or f is pk:
            continue
        ins = [c for c in f.calls if c.name == "insert" and "BitSet" in c.best]
        for c in ins:
            roots = deep_roots(prog, f, c.args[1])
            from_pattern = any("PatternNode" in describe_origin(f, o) for o in roots)
            ctx.ob("R7", "%s inserts a kind" % f.id, not from_pattern, "BitSet::insert of %s" % "; ".join(describe_origin(f, o) for o in roots), where=f.loc(c.line))


# ------------------------------------------------------------------------------------------------
def strictness_facts(ctx):
    """Read from MatchStrictness::match_terminal's CFG: K = variants that can return MatchedBoth without the text
    comparison; S = variants whose skip_goal is `!is_named` (an unnamed pattern token need not occur)."""
    prog = ctx.prog
    mt = ctx.anchor("R8", r"^ast_grep_core::match_tree::strictness::MatchStrictness::match_terminal$")
    if not mt:
        return None
    sws = self_switches(mt, r"MatchStrictness")
    if not sws:
        ctx.ob("R8", "match_terminal/switch", False, "no match over self", where=mt.loc())
        return None
    bi, si = sws[0]
    arms = arm_blocks(mt, si)
    K, S = set(), set()
    for v, blocks in arms.items():
        for b in blocks:
            for s in mt.blocks[b]["s"]:
                if s[0] != "A":
                    continue
                rv = s[2]
                if s[1][0] == 0 and rv[0] == "agg" and rv[1].get("variant") == "MatchedBoth":
                    K.add(v)
                if rv[0] == "un" and rv[1] == "Not":
                    if any(o.kind == "param" and o.ref == 2 for o in mt.trace_operand(rv[2])):
                        S.add(v)
    # U: a MatchedBoth exit BEFORE the match over self (common to every strictness) that an unnamed pattern token reaches without the
    # text comparison: `is_kind_matched && (!is_named || text == candidate.text())`
    U = False
    text_eq = set()
    for c in mt.calls:
        if c.name in ("eq", "ne") and any(o.kind == "param" and o.ref == 3 for a in c.args for o in mt.trace_operand(a)):
            text_eq.add(c.bb)
    early = [b for b in sorted(mt.live_blocks) if not mt.dominates(bi, b) and any(
        s[0] == "A" and s[1][0] == 0 and s[2][0] == "agg" and s[2][1].get("variant") == "MatchedBoth" for s in mt.blocks[b]["s"])]
    for b in sorted(mt.live_blocks):
        pol = _bool_switch(mt, b)
        if not pol:
            continue
        op, f_edge, t_edge = pol
        if not any(o.kind == "param" and o.ref == 2 and not o.proj for o in mt.trace_operand(op)):
            continue
        if f_edge not in text_eq and any(e == f_edge or e in set(mt.reachable_from(f_edge, stop=text_eq | {bi})) for e in early):
            U = True
    ctx.prog.__dict__["_c01_U"] = U
    return K, S


def _bool_switch(f, b):
    """(operand, target when the operand is false, target when it is true) of a two-way switch over a bool, seen through `!x`"""
    t = f.blocks[b]["t"]
    if t[0] != "switch" or len(t[2]) != 1 or t[1][0] == "k":
        return None
    op = t[1]
    if op[1][1] or f.locals[op[1][0]] != "bool":
        return None
    val, tgt = t[2][0]
    if val not in ("0", "1"):
        return None
    f_edge, t_edge = (tgt, t[3]) if val == "0" else (t[3], tgt)
    for _ in range(4):
        d = f.find_def_in_block(b, op[1][0]) if op[0] != "k" and not op[1][1] else None
        if d is not None and d[0] == "un" and d[1] == "Not" and d[2][0] != "k":
            op = d[2]
            f_edge, t_edge = t_edge, f_edge
        else:
            break
    return op, f_edge, t_edge


def unnamed_text_possible(prog, g, consts, depth=0):
    """Can `g` (a PatternNode literal routine), called with the bool parameters fixed as in `consts` {param: bool}, hand back the text
    of an UNNAMED Terminal?  Reachability of the blocks that read Terminal.text, after pruning (a) switches over a fixed parameter to
    the edge taken and (b) the `is_named == true` edge of switches over Terminal.is_named."""
    def is_field(o, name):
        return any(isinstance(p_, str) and p_.startswith(".%s|" % name) and "PatternNode::Terminal" in p_ for p_ in o.proj)
    succ = {}
    for b in g.live_blocks:
        out = list(g.term_succs(b))
        pol = _bool_switch(g, b)
        if pol:
            op, f_edge, t_edge = pol
            org = g.trace_operand(op)
            if org and all(o.kind == "param" and not o.proj and o.ref in consts for o in org) and len({consts[o.ref] for o in org}) == 1:
                out = [t_edge if consts[org[0].ref] else f_edge]
            elif org and all(is_field(o, "is_named") for o in org):
                out = [f_edge]
        succ[b] = out
    seen, todo = set(), [0]
    while todo:
        b = todo.pop()
        if b in seen:
            continue
        seen.add(b)
        todo += succ.get(b, [])
    for b in seen:
        for s in g.blocks[b]["s"]:
            if s[0] == "A" and s[2][0] in ("ref", "use"):
                pl = s[2][2] if s[2][0] == "ref" else (s[2][1][1] if s[2][1][0] != "k" else None)
                if pl and any(isinstance(p_, str) and p_.startswith(".text|") and "PatternNode::Terminal" in p_ for p_ in pl[1]):
                    return True
    if depth < 3:
        for c in g.calls:
            if c.bb in seen and "PatternNode" in c.best and "fixed_string" in c.name and c.best != g.id and c.best in prog.fns:
                sub = {}
                for i, a in enumerate(c.args):
                    if a[0] == "k" and a[1].get("ty") == "bool":
                        sub[i + 1] = a[1].get("bits") == "1"
                    elif a[0] != "k":
                        org = g.trace_operand(a)
                        if org and all(o.kind == "param" and not o.proj and o.ref in consts for o in org) and len({consts[o.ref] for o in org}) == 1:
                            sub[i + 1] = consts[org[0].ref]
                if unnamed_text_possible(prog, prog.fns[c.best], sub, depth + 1):
                    return True
    return False


def r8(ctx):
    prog = ctx.prog
    ffp = ctx.anchor("R8", r"^ast_grep::utils::filter_file_pattern$")
    if not ffp:
        return
    fam = prog.family(ffp)
    from ..facts import exclusive_helpers
    for h in exclusive_helpers(prog, ffp).values():  # e.g. the prefilter extracted into a private `may_contain_match`
        fam += prog.family(h)
    # skip sites: str::contains whose false arm returns None (skips the file)
    sites = []
    for f in fam:
        for c in f.calls:
            if c.name == "contains" and "str" in c.best:
                sites.append(c)
    ctx.floor("R8", "literal skip sites", len(sites), 1)
    facts = strictness_facts(ctx)
    if facts is None:
        return
    K, S = facts
    U = prog.__dict__.get("_c01_U", False)
    ctx.note("derived from match_terminal: kind-only match under %s; unnamed pattern tokens skippable under %s; unnamed pattern tokens matched by kind alone before the strictness is consulted: %s" % (sorted(K), sorted(S), U))

    def takes_unnamed_text(text_calls):
        bad = []
        for c2 in text_calls:
            g = prog.fns.get(c2.best)
            if g is None:
                continue
            consts = {i + 1: a[1].get("bits") == "1" for i, a in enumerate(c2.args) if a[0] == "k" and a[1].get("ty") == "bool"}
            if unnamed_text_possible(prog, g, consts):
                bad.append(c2)
        return bad
    UNNAMED = ("unnamed pattern tokens (keywords, punctuation) match by kind alone under every strictness (match_terminal: `!is_named || text == candidate.text()`), "
               "but this arm takes the text of unnamed tokens too as the literal every file must contain: a file that spells the token differently "
               "(PHP `ECHO 1;` for the pattern `echo $A`) is skipped although it matches")
    ctx.ob("R8", "match_terminal facts", bool(K) and bool(S), "read from match_terminal's CFG: MatchedBoth without text comparison under %s; skip_goal = !is_named under %s" % (sorted(K), sorted(S)), nontrivial=True)
    for c in sites:
        f = c.fn
        lit = receiver_roots(prog, f, c.args[1], TRANSPARENT | {"deref"})
        src = [o.ref for ff, o in lit if o.kind == "call"]
        fs = [x for x in src if x.name == "fixed_string"]
        if not fs:
            ctx.ob("R8", "skip site in %s/literal source" % f.id, False, "literal comes from %s, not from Pattern::fixed_string" % "; ".join(describe_origin(ff, o) for ff, o in lit), where=f.loc(c.line))
            continue
        tgt = prog.fns.get(fs[0].best)
        if tgt is None:
            ctx.ob("R8", "skip site in %s/fixed_string body" % f.id, False, "fixed_string callee %s not in facts" % fs[0].best)
            continue
        # does the function (or what it calls) branch on self.strictness ?
        sws = [(bi, si) for bi, si in self_switches(tgt, r"MatchStrictness") ]
        if not sws:
            ctx.ob("R8", "Pattern::fixed_string honours strictness", False,
                   "the file is skipped when Pattern::fixed_string() does not occur in it, but fixed_string never looks at self.strictness: under %s terminals match by kind alone (text is not compared), and under %s unnamed pattern tokens may be skipped — files that contain matches are dropped" % (sorted(K), sorted(S - K)),
                   where=tgt.loc())
            continue
        bi, si = sws[0]
        arms = arm_blocks(tgt, si)
        for v in sorted(si["arms"]):
            calls = calls_in(prog, tgt, arms.get(v, set()))
            text_calls = [c2 for c2 in calls if "PatternNode" in c2.best and "fixed_string" in c2.name]
            if v in K:
                ctx.ob("R8", "Pattern::fixed_string/%s" % v, not text_calls, "strictness %s matches terminals by kind alone: arm %s" % (v, "contributes no literal" if not text_calls else "still returns pattern text"), where=tgt.loc())
            elif v in S:
                # the PatternNode routine reached must read Terminal.is_named
                ok = False
                for c2 in text_calls:
                    g = prog.fns.get(c2.best)
                    if g and reads_field(prog, g, "is_named"):
                        ok = True
                if ok and U and takes_unnamed_text(text_calls):
                    ok = False
                ctx.ob("R8", "Pattern::fixed_string/%s" % v, ok or not text_calls, "strictness %s may skip unnamed pattern tokens: arm %s" % (v, "uses a routine that distinguishes is_named" if ok else ("contributes no literal" if not text_calls else "takes text of unnamed tokens too")), where=tgt.loc())
            elif U:
                bad = takes_unnamed_text(text_calls)
                ctx.ob("R8", "Pattern::fixed_string/%s" % v, not bad, "strictness %s: the literal is drawn from named tokens only" % v if not bad else UNNAMED, where=tgt.loc())
            else:
                ctx.ob("R8", "Pattern::fixed_string/%s" % v, True, "strictness %s compares the text of every pattern terminal" % v, where=tgt.loc(), nontrivial=False)


def reads_field(prog, fn, field):
    for g in prog.family(fn):
        for b in g.blocks:
            for s in b["s"]:
                if s[0] == "A":
                    rv = s[2]
                    pls = []
                    if rv[0] == "use" and rv[1][0] != "k":
                        pls.append(rv[1][1])
                    elif rv[0] in ("ref", "ptr"):
                        pls.append(rv[2])
                    elif rv[0] in ("cfd", "discr"):
                        pls.append(rv[1])
                    elif rv[0] == "un" and rv[2][0] != "k":
                        pls.append(rv[2][1])
                    for pl in pls:
                        if field in field_path(pl[1]):
                            return True
            t = b["t"]
            if t[0] == "switch" and t[1][0] != "k" and field in field_path(t[1][1][1]):
                return True
    return False


def r9(ctx):
    from ..query import overlap_tests
    prog = ctx.prog
    tests = overlap_tests(prog, ("ast_grep_core", "ast_grep_config", "ast_grep", "ast_grep_lsp", "ast_grep_napi"))
    ctx.floor("R9", "range-overlap comparisons found in the workspace (positive control)", len(tests), 3)
    seen = {}
    for f, line, raw, op, ok in tests:
        seen[f.id] = seen.get(f.id, 0) + 1
        ctx.ob("R9", "overlap test in %s#%d" % (f.id, seen[f.id]), ok,
               "`start %s end`: an item that begins exactly where the previous one ends is treated as not overlapping" % {"Lt": "<", "Ge": ">="}.get(op, op) if ok else
               "`start %s previous end` puts start == end on the overlapping side: byte ranges are half-open, so a match that begins exactly where the previous one "
               "ends (`a;b;c;`, `${a}${b}`) is dropped although it is not nested (the other overlap filters of the code base use `start < end`)" % {"Le": "<=", "Gt": ">"}.get(op, op),
               where=f.loc(line))
