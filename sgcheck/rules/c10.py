"""C10 — editing a parsed document == parsing the edited text: the edit-description protocol."""
import re
from ..query import call_count_range, ultimate_roots, describe_origin, field_path, deep_roots, closure_consumer, TRANSPARENT

EXPLANATION = (
    "Decided: the necessary protocol conditions under which tree-sitter's incremental re-parse can equal a "
    "fresh parse, for every edit history because they are path properties of the code: R1 on every path of "
    "Root::do_edit to its re-parse the old tree receives Tree::edit exactly once (call-path counting with "
    "perform_edit inlined); R2 in every Content::accept_edit impl the start/old-end points are computed before "
    "the buffer splice and the new-end point after it, and the three byte offsets are position, "
    "position+deleted_length, position+inserted length; R3 single writer: only Root::do_edit obtains the mutable "
    "source, writes Root.inner or mutably borrows Root.doc, nobody writes StrDoc.src after construction; R4 the "
    "re-parse receives the edited old tree and its result replaces it in the same Root."
)
NOT_DECIDED = (
    "tree-sitter's C incremental parser; whether position_for_offset counts columns as the grammar's scanner "
    "expects; equality of kinds/ranges of the resulting trees as values."
)
TRUSTED = ["tree-sitter incremental parsing given a correct InputEdit", "nightly rustc MIR construction and call resolution"]

TREE_EDIT = re.compile(r"::Tree::edit$")


def is_tree_edit(c):
    return bool(TREE_EDIT.search(c.best)) or bool(c.path and TREE_EDIT.search(c.path))


def run(ctx):
    prog = ctx.prog
    ctx.rule("R1", "exactly one Tree::edit on every path from Root::do_edit entry to the re-parse (callees inlined)")
    ctx.rule("R2", "accept_edit: start/old_end points before the splice, new_end point after; byte offsets = position, +deleted_length, +inserted len")
    ctx.rule("R3", "single writer: get_source_mut / Root.inner / Root.doc(mut) only in Root::do_edit; StrDoc.src never written after construction")
    ctx.rule("R5", "the edit description given by the caller reaches do_edit unmodified (no field of an Edit is rewritten on the way)")
    ctx.rule("R6", "an edit leaves nothing behind that describes the old tree: every field of Root is rewritten by do_edit")
    r6(ctx)
    r4b(ctx)
    ctx.rule("R7", "a document built from a text holds exactly that text (the 'fresh parse' side of the comparison)")
    r7(ctx)
    ctx.rule("R4", "re-parse receives Some(&self.inner) (the edited tree) and its result is stored back into self.inner")

    do_edit = ctx.anchor("R1", r"^ast_grep_core::node::Root::<D>::do_edit$")
    if do_edit is None:
        return
    r5(ctx)
    # the protocol is checked on do_edit with its exclusive private helpers spliced in (a maintainer may split it into
    # `apply_edit` + `reparse`, or extract the splice): same paths, same calls
    writers = {do_edit.id}
    dv = prog.inlined(do_edit)
    writers |= set(getattr(dv, "inlined_from", ()))
    do_edit = dv
    # ---- R1 -------------------------------------------------------------------------------------
    parse_calls = [c for c in do_edit.calls if c.name == "parse" and c.callee.get("trait", "").endswith("::Doc")]
    if len(parse_calls) != 1:
        ctx.ob("R1", "do_edit/parse", False, "expected exactly one Doc::parse call in do_edit, found %d" % len(parse_calls), where=do_edit.loc())
    else:
        pc = parse_calls[0]
        lo, hi = call_count_range(prog, do_edit, is_tree_edit, stop_block=pc.bb)
        sites = [c for c in do_edit.calls if is_tree_edit(c)]
        inl = []
        for c in do_edit.calls:
            for t in prog.call_targets(c):
                sub = call_count_range(prog, prog.fns[t], is_tree_edit)
                if sub != (0, 0):
                    inl.append("%s contributes %s" % (t, sub))
        ctx.ob("R1", "do_edit edit-count", (lo, hi) == (1, 1),
               "Tree::edit is applied between %s and %s times on paths to the re-parse (direct calls in do_edit: %d; %s). %s" % (
                   lo, hi, len(sites), "; ".join(inl) or "no inlined callee edits",
                   "0 leaves stale positions; 2 shifts every node after the edit twice so the parser reuses subtrees at wrong offsets" if (lo, hi) != (1, 1) else ""),
               where=do_edit.loc(pc.line), facts={"min": lo, "max": str(hi)})
    # every other caller of Tree::edit in the workspace must be perform_edit (the one edit funnel)
    all_edit = [c for f in prog.fns.values() for c in f.calls if is_tree_edit(c)]
    for c in all_edit:
        ctx.ob("R1", "Tree::edit site in %s" % c.fn.id, c.fn.id in ("ast_grep_core::source::perform_edit",) or c.fn.id in writers,  # do_edit itself (helper inlined by hand) is the same funnel; the edit-count rule above bounds it
               "call of Tree::edit %s" % ("inside the edit funnel perform_edit" if c.fn.id == "ast_grep_core::source::perform_edit" else "outside perform_edit: a second place that shifts the old tree"),
               where=c.fn.loc(c.line))
    ctx.floor("R1", "Tree::edit sites", len(all_edit), 1)
    # perform_edit: accept_edit result is what is passed to Tree::edit
    pe = ctx.anchor("R1", r"^ast_grep_core::source::perform_edit$")
    if pe is not None:
        acc = [c for c in pe.calls if c.name == "accept_edit"]
        ed = [c for c in pe.calls if is_tree_edit(c)]
        ok = False
        if len(acc) == 1 and len(ed) == 1:
            roots = deep_roots(prog, pe, ed[0].args[1])
            ok = any(o.kind == "call" and o.ref is acc[0] for o in roots) and pe.dominates(acc[0].bb, ed[0].bb)
            troots = pe.trace_operand(ed[0].args[0])
            ok = ok and any(o.kind == "param" and o.ref == 1 for o in troots)
        ctx.ob("R1", "perform_edit wiring", ok, "Tree::edit(tree param, InputEdit returned by input.accept_edit(edit))", where=pe.loc())

    # ---- R2 -------------------------------------------------------------------------------------
    impls = [i for i in prog.impls_of("ast_grep_core::source::Content")]
    n2 = 0
    for impl in impls:
        fn = prog.impl_method(impl, "accept_edit")
        if fn is None:
            ctx.ob("R2", "accept_edit of %s" % impl["self"], False, "no accept_edit body found")
            continue
        n2 += 1
        tag = "accept_edit(%s)" % impl["self"]
        splices = [c for c in fn.calls if re.search(r"::(splice|replace_range|drain|extend_from_slice|insert_str|truncate)$", c.best)]
        news = [c for c in fn.calls if re.search(r"InputEdit::new$", c.best)]
        if len(splices) != 1 or len(news) != 1:
            ctx.ob("R2", tag + "/shape", False, "expected one buffer splice and one InputEdit::new, found %d and %d" % (len(splices), len(news)), where=fn.loc())
            continue
        sp, nw = splices[0], news[0]
        names = ["start_byte", "old_end_byte", "new_end_byte", "start_position", "old_end_position", "new_end_position"]
        # points: each Point handed to InputEdit::new is MEASURED on the buffer in the right state.  Shape-independent formulation
        # over the transitive provenance of the argument: every read of the spliced buffer that the value depends on happens
        # before the splice (start, old_end) resp. after it (new_end) — a new_end that resumes counting from a position measured
        # before the splice depends on a pre-splice read and is reported
        def okey(o):
            return (o.kind, o.ref if isinstance(o.ref, (int, str)) else id(o.ref))
        sroots = {okey(o) for o in deep_roots(prog, fn, sp.args[0], TRANSPARENT | {"deref", "deref_mut", "as_mut_vec", "as_bytes", "as_slice"})}

        def reads_buffer(c):
            for a in c.args:
                if a[0] == "k":
                    continue
                r = {okey(o) for o in deep_roots(prog, fn, a, TRANSPARENT | {"deref", "deref_mut", "as_mut_vec", "as_bytes", "as_slice", "index", "iter", "into_iter"})}
                if r & sroots:
                    return True
            return False

        def provenance(op):
            seen, out, work = set(), [], [op]
            while work:
                x = work.pop()
                if x[0] == "k":
                    continue
                for o in fn.trace_operand(x):
                    key = (o.kind, o.ref if isinstance(o.ref, (int, str)) else id(o.ref))
                    if key in seen:
                        continue
                    seen.add(key)
                    if o.kind == "call":
                        out.append(o.ref)
                        work.extend(a for a in o.ref.args if a[0] != "k")
                    elif o.kind == "agg":
                        work.extend(a for a in o.ref[2][2] if a[0] != "k")
                    elif o.kind == "op":
                        rv = o.ref[2]
                        work.extend(a for a in rv[2:] if isinstance(a, list) and a and a[0] in ("c", "m"))
                    elif o.kind == "local":
                        for dfn in fn.defs.get(o.ref, []):
                            if dfn[0] == "assign" and dfn[3][0] == "use":
                                work.append(dfn[3][1])
            return out
        buffer_chain = {id(c) for c in provenance(sp.args[0])}  # how the buffer itself is obtained (as_mut_vec…): not a measurement
        for idx, before in ((3, True), (4, True), (5, False)):
            prov = provenance(nw.args[idx])
            reads = [c for c in prov if c is not sp and id(c) not in buffer_chain and reads_buffer(c)]
            pre = [c for c in reads if fn.dominates(c.bb, sp.bb) and c.bb != sp.bb]
            post = [c for c in reads if fn.dominates(sp.bb, c.bb) and c.bb != sp.bb]
            other = [c for c in reads if c not in pre and c not in post]
            if before:
                ok = bool(pre) and not post and not other
                msg = "%s depends on %d read(s) of the buffer, all before the splice" % (names[idx], len(pre)) if ok else \
                    "%s depends on reads of the buffer that are not all before the splice (before %d, after %d, unordered %d): it is measured on the wrong text" % (names[idx], len(pre), len(post), len(other))
            else:
                ok = bool(post) and not pre and not other
                msg = "%s depends on %d read(s) of the buffer, all after the splice" % (names[idx], len(post)) if ok else \
                    "%s depends on a position measured BEFORE the splice (%s): rows/columns counted on the old text are carried over to the new text — wrong whenever the replaced or inserted text contains a line break" % (
                        names[idx], sorted({c.name for c in pre + other}) or "no read after the splice")
            ctx.ob("R2", "%s/%s" % (tag, names[idx]), ok, msg, where=fn.loc(nw.line))
            # offset argument of the point call must be the matching byte offset (when the point is one call of a (buffer, offset) function)
            roots = deep_roots(prog, fn, nw.args[idx])
            calls = [o.ref for o in roots if o.kind == "call" and len(o.ref.args) == 2 and reads_buffer(o.ref)]
            if len(calls) == 1:
                pc = calls[0]
                want = names[idx - 3]
                o_point = byte_expr(prog, fn, pc.args[1])
                o_byte = byte_expr(prog, fn, nw.args[idx - 3])
                ctx.ob("R2", "%s/%s offset" % (tag, names[idx]), o_point == o_byte and o_point is not None,
                       "%s is computed at offset %s; %s passed to InputEdit is %s" % (names[idx], o_point, want, o_byte), where=fn.loc(pc.line))
        # bytes
        exp = [("position",), ("position", "deleted_length"), ("position", "inserted_text")]
        for idx in range(3):
            e = byte_expr(prog, fn, nw.args[idx])
            ok = e is not None and tuple(sorted(e)) == tuple(sorted(exp[idx]))
            ctx.ob("R2", "%s/%s" % (tag, names[idx]), ok, "%s = sum of edit fields %s (expected %s)" % (names[idx], e, exp[idx]), where=fn.loc(nw.line))
        # the splice range is start_byte..old_end_byte (possibly scaled) and inserts edit.inserted_text
        ins = deep_roots(prog, fn, sp.args[2]) if len(sp.args) > 2 else []
        ok = any(o.kind == "param" and "inserted_text" in field_path(o.proj) for o in ins)
        ctx.ob("R2", tag + "/splice text", ok, "splice inserts %s" % "; ".join(describe_origin(fn, o) for o in ins), where=fn.loc(sp.line))
    ctx.floor("R2", "accept_edit impls", n2, 2)

    # ---- R3 -------------------------------------------------------------------------------------
    gsm = [c for c in prog.who_calls(r"::get_source_mut$")]
    for c in gsm:
        ctx.ob("R3", "get_source_mut caller %s" % c.fn.id, c.fn.id in writers, "Doc::get_source_mut called", where=c.fn.loc(c.line))
    ctx.floor("R3", "get_source_mut callers", len(gsm), 1)
    for field, allowed in (("inner", writers), ("doc", writers)):
        ws = prog.field_writes(r"^ast_grep_core::node::Root$", field)
        for f, bi, kind, line in ws:
            ctx.ob("R3", "Root.%s %s in %s" % (field, kind, f.id), f.id in allowed, "Root.%s is written/mutably borrowed" % field, where=f.loc(line))
    ws = prog.field_writes(r"^ast_grep_core::source::StrDoc$", "src")
    for f, bi, kind, line in ws:
        ctx.ob("R3", "StrDoc.src %s in %s" % (kind, f.id), f.id.endswith("::get_source_mut"), "StrDoc.src is written/mutably borrowed outside get_source_mut", where=f.loc(line))
    # Root aggregates: both fields from one consistent construction (parse of that very doc, or clone)
    aggs = prog.aggregates_of(r"^ast_grep_core::node::Root$")
    for f, bi, si, s in aggs:
        fields = s[2][1]["fields"]
        ops = dict(zip(fields, s[2][2]))
        inner = deep_roots(prog, f, ops["inner"])
        doc = deep_roots(prog, f, ops["doc"])
        # inner must be the result of a parse call whose receiver is the doc stored, or both cloned from one Root
        ok = False
        why = ""
        for o in inner:
            if o.kind == "call" and o.ref.name in ("parse", "parse_lang"):
                recv = deep_roots(prog, f, o.ref.args[0])
                if {(r.kind, r.ref if r.kind != "call" else id(r.ref)) for r in recv} & {(d.kind, d.ref if d.kind != "call" else id(d.ref)) for d in doc}:
                    ok = True
                    why = "tree = parse of the stored doc"
            if o.kind == "param" and any(d.kind == "param" and d.ref == o.ref for d in doc):
                ok = True
                why = "both fields copied from one existing Root"
        if not ok:
            # loop form of get_injections: `let Ok(Some(tree)) = source.parse_tree_sitter(..)` with source = self.doc.get_source(), doc = self.doc.clone_with_lang(..)
            T2 = TRANSPARENT | {"map", "clone_with_lang", "get_source"}
            for o in inner:
                if o.kind == "call" and o.ref.name.startswith("parse") and o.ref.args:
                    a = {(rf.id, r.kind, r.ref if r.kind != "call" else id(r.ref), tuple(field_path(r.proj))[:1]) for rf, r in ultimate_roots(prog, f, o.ref.args[0], T2)}
                    b = set()
                    for d in doc:
                        if d.kind == "call" and d.ref.args:
                            b |= {(rf.id, r.kind, r.ref if r.kind != "call" else id(r.ref), tuple(field_path(r.proj))[:1]) for rf, r in ultimate_roots(prog, f, d.ref.args[0], T2)}
                    if a & b:
                        ok = True
                        why = "tree = %s over the source of the same doc the new Root's doc is cloned from" % o.ref.best
        if not ok and f.is_closure:
            # `tree.map(|t| Root { inner: t, doc })`: the tree is the closure's argument; look at what the
            # consuming adaptor call is applied to in the parent function
            cons = closure_consumer(prog, f)
            if cons and any(o.kind == "param" and o.ref == 2 for o in inner):
                pf, pc, ai = cons
                T2 = TRANSPARENT | {"map", "clone_with_lang", "get_source"}
                tree_src = [o for o in deep_roots(prog, pf, pc.args[0]) if o.kind == "call" and o.ref.name.startswith("parse")]
                for o in tree_src:
                    src_roots = ultimate_roots(prog, pf, o.ref.args[0], T2)
                    doc_roots = []
                    for d in doc:
                        if d.kind == "call":
                            doc_roots.extend(ultimate_roots(prog, f, d.ref.args[0], T2))
                    a = {(rf.id, r.kind, r.ref if r.kind != "call" else id(r.ref), tuple(field_path(r.proj))[:1]) for rf, r in src_roots}
                    b = {(rf.id, r.kind, r.ref if r.kind != "call" else id(r.ref), tuple(field_path(r.proj))[:1]) for rf, r in doc_roots}
                    if a & b:
                        ok = True
                        why = "tree = %s over the source of the same doc the new Root's doc is cloned from (%s)" % (o.ref.best, sorted(x[3] for x in a & b))
        ctx.ob("R3", "Root constructed in %s" % f.id, ok, why or "inner from {%s}; doc from {%s}" % ("; ".join(describe_origin(f, o) for o in inner), "; ".join(describe_origin(f, o) for o in doc)), where=f.loc(s[3]))
    ctx.floor("R3", "Root constructors", len(aggs), 3)

    # ---- R4 -------------------------------------------------------------------------------------
    if len(parse_calls) == 1:
        pc = parse_calls[0]
        arg = deep_roots(prog, do_edit, pc.args[1])
        ok_arg = False
        for o in do_edit.trace_operand(pc.args[1]):
            if o.kind == "agg" and o.ref[2][1].get("variant") == "Some":
                inner = deep_roots(prog, do_edit, o.ref[2][2][0])
                ok_arg = any(r.kind == "param" and r.ref == 1 and "inner" in field_path(r.proj) for r in inner)
        ctx.ob("R4", "parse argument", ok_arg, "Doc::parse is given Some(&self.inner)" if ok_arg else "Doc::parse is not given Some(&self.inner): no incremental reuse of the edited tree / wrong tree", where=do_edit.loc(pc.line))
        recv = deep_roots(prog, do_edit, pc.args[0])
        ok_recv = any(r.kind == "param" and r.ref == 1 and "doc" in field_path(r.proj) for r in recv)
        ctx.ob("R4", "parse receiver", ok_recv, "parse is invoked on self.doc", where=do_edit.loc(pc.line))
        # result stored into self.inner
        stored = False
        store_blocks = set()
        for bi in do_edit.reachable_from(pc.bb):
            for s in do_edit.blocks[bi]["s"]:
                if s[0] == "A" and s[2][0] == "use":
                    direct = "inner" in field_path(s[1][1])
                    # through a `&mut` alias: `let Self { inner: tree, .. } = self; *tree = reparsed;`
                    alias = (not direct) and "*" in s[1][1] and any(
                        r.kind == "param" and r.ref == 1 and "inner" in field_path(r.proj) for r in do_edit.trace_operand(["c", [s[1][0], []]]))
                    if direct or alias:
                        src = deep_roots(prog, do_edit, s[2][1])
                        if any(r.kind == "call" and r.ref is pc for r in src):
                            stored = True
                            store_blocks.add(bi)
        # the re-parse is unconditional: once perform_edit changed text and tree, no path reaches a return without parsing
        # (an edit "that cannot change the structure" — blanks for blanks — still can: ASI in JS, layout in Python)
        from ..query import path_avoiding
        pes = [c for c in do_edit.calls if c.name == "perform_edit" or is_tree_edit(c)]
        skipping = [c for c in pes if any(path_avoiding(do_edit, s2, [pc.bb], list(do_edit.return_blocks())) for s2 in do_edit.succ[c.bb])]
        ctx.ob("R4", "re-parse on every path after the edit", bool(pes) and not skipping,
               "every path from perform_edit to a return passes Doc::parse" if pes and not skipping else
               "do_edit can return after perform_edit WITHOUT re-parsing: the edited document keeps the old tree's structure (shifted), which differs from a fresh parse wherever the edit changes tokenisation or layout", where=do_edit.loc(pc.line))
        ctx.ob("R4", "parse result stored", stored, "result of parse is assigned to self.inner" if stored else "result of parse is not stored into self.inner", where=do_edit.loc(pc.line))
        # …and stored on EVERY path on which the parse succeeded: a test in between ("nothing changed according to changed_ranges, keep
        # the old tree") keeps the shifted old tree, whose zero-width ghosts of deleted tokens a fresh parse does not have
        if stored:
            from ..query import option_arms as _oa
            ok_side = _oa(do_edit, pc)["some"]
            unconditional = bool(ok_side) and not any(path_avoiding(do_edit, b, store_blocks, list(do_edit.return_blocks())) for b in ok_side if b not in store_blocks)
            ctx.ob("R4", "parse result stored on every path on which the parse succeeded", unconditional,
                   "no return is reachable from the Ok side of Doc::parse without the store into self.inner" if unconditional else
                   "do_edit can return Ok after a successful re-parse WITHOUT installing the new tree: the document keeps the edited old tree", where=do_edit.loc(pc.line))


def byte_expr(prog, fn, operand, depth=0):
    """symbolic sum of edit fields an offset expression is made of, e.g. ['position','deleted_length'];
    multiplication/division by constants and casts are looked through. None if something else."""
    out = []
    for o in fn.trace_operand(operand):
        r = _byte_origin(prog, fn, o, depth)
        if r is None:
            return None
        out.extend(r)
    return sorted(out) if out else None


def _byte_origin(prog, fn, o, depth):
    if depth > 8:
        return None
    if o.kind == "param":
        fp = field_path(o.proj)
        return [fp[-1]] if fp else None
    if o.kind == "op":
        rv = o.ref[2]
        if rv[0] == "bin":
            op = rv[1]
            a = byte_expr(prog, fn, rv[2], depth + 1) if rv[2][0] != "k" else []
            b = byte_expr(prog, fn, rv[3], depth + 1) if rv[3][0] != "k" else []
            if a is None or b is None:
                return None
            if op.startswith("Add"):
                return a + b
            if op.startswith(("Mul", "Div", "Shl", "Shr")):
                return a + b  # scaling by a constant
            return None
        return None
    if o.kind == "call":
        c = o.ref
        tg = [t for t in prog.call_targets(c) if t in prog.fns and prog.fns[t].crate.startswith("ast_grep")]
        if len(tg) == 1 and c.name not in ("len",):
            # an extracted helper returning the offsets (possibly as a tuple): evaluate its return expression, with its bare
            # parameters replaced by the caller's argument expressions
            h = prog.fns[tg[0]]
            idx = None
            for p_ in o.proj:
                if p_.startswith(".") and p_[1:].split("|")[0].isdigit():
                    idx = int(p_[1:].split("|")[0])
                    break
            exprs = []
            for bi in sorted(h.live_blocks):
                for st in h.blocks[bi]["s"]:
                    if st[0] == "A" and st[1][0] == 0 and not st[1][1]:
                        if st[2][0] == "agg" and idx is not None and idx < len(st[2][2]):
                            exprs.append(st[2][2][idx])
                        elif st[2][0] == "use" and idx is None:
                            exprs.append(st[2][1])
            if len(exprs) != 1 or exprs[0][0] == "k":
                return None
            out = []
            for o2 in h.trace_operand(exprs[0]):
                if o2.kind == "param" and not field_path(o2.proj):
                    if o2.ref - 1 >= len(c.args) or c.args[o2.ref - 1][0] == "k":
                        return None
                    sub = byte_expr(prog, fn, c.args[o2.ref - 1], depth + 1)
                else:
                    sub = _byte_origin(prog, h, o2, depth + 1)
                if sub is None:
                    return None
                out.extend(sub)
            return out
        if c.name in ("len",):
            r = deep_roots(prog, fn, c.args[0])
            for x in r:
                if x.kind == "param":
                    fp = field_path(x.proj)
                    if fp:
                        return [fp[-1]]
            return None
        return None
    if o.kind == "const":
        return []
    return None


def r5(ctx):
    """Who hands an Edit to Root::do_edit, directly or through AstGrep::edit: in none of those functions is a field of an Edit value
    assigned (position/deleted_length/inserted_text are set once, where the Edit is constructed).  'Clamping' an edit into
    root().range() moves an insertion at offset 0 behind leading whitespace: the text is no longer the spliced text."""
    prog = ctx.prog
    de = ctx.anchor("R5", r"^ast_grep_core::node::Root::<D>::do_edit$")
    if not de:
        return
    seen, work, fns = set(), [de.id], []
    while work:
        t = work.pop()
        for c in prog.call_sites.get(t, []):
            f = c.fn
            root = prog.fns.get(f.root, f) if f.is_closure else f
            if root.id in seen or not root.crate.startswith("ast_grep"):
                continue
            # only follow callers that pass an Edit on
            if not any(a[0] != "k" and "source::Edit<" in f.locals[a[1][0]] for a in c.args):
                continue
            seen.add(root.id)
            fns.append(root)
            work.append(root.id)
    ctx.floor("R5", "functions handing an Edit towards do_edit", len(fns), 1)
    for f in sorted(fns, key=lambda f: f.id):
        stores = []
        for g in prog.family(f):
            for bi in g.live_blocks:
                for st in g.blocks[bi]["s"]:
                    if st[0] == "A" and any(p.endswith("|ast_grep_core::source::Edit") for p in st[1][1]):
                        stores.append("%s L%d" % ([p[1:].split("|")[0] for p in st[1][1] if p.startswith(".")][0], st[3]))
                    # re-building the Edit from the parameter's parts is the same thing
                    if st[0] == "A" and st[2][0] == "agg" and (st[2][1].get("adt") or "").endswith("ast_grep_core::source::Edit") and \
                            any("source::Edit<" in g.locals[i] for i in range(1, g.nargs + 1)):
                        stores.append("new Edit L%d" % st[3])
        ctx.ob("R5", "%s passes the edit on unmodified" % f.id, not stores,
               "no field of an Edit is assigned here" if not stores else
               "fields of the Edit are rewritten before it reaches do_edit (%s): the change applied to the text is not the one the caller described — "
               "the document no longer equals the caller's splice" % stores, where=f.loc())


def r4b(ctx):
    """The re-parse runs with a parser made for THIS document's language: wherever the core crate hands a `&mut Parser` to the parsing
    closure / parse_tree_sitter, that parser is not taken out of a cache (map lookup, RefCell/Mutex/thread-local/static).
    A parser taken from a cache (per thread, per Rust type) keeps the grammar of whichever document configured it first — SupportLang,
    SgLang and DynamicLang are ONE type for many grammars."""
    prog = ctx.prog
    n = 0
    for f in sorted(prog.fns.values(), key=lambda f: f.id):
        if f.crate != "ast_grep_core" or not f.file.endswith("core/src/source.rs") or f.is_closure:
            continue
        for fi in prog.family(prog.inlined(f)):
          for c in fi.calls:
              if c.bb not in fi.live_blocks or c.name in ("set_language", "new", "branch", "from_residual", "set_included_ranges"):
                  continue
              pargs = [a for a in c.args if a[0] != "k" and ("&mut tree_sitter_facade_sg::parser::native::Parser" in fi.locals[a[1][0]])]
              if not pargs or "Parser::parse" in c.best:
                  continue
              if fi.is_closure and all(o.kind == "param" and all(p_ in ("*", "&") for p_ in o.proj) for a in pargs for o in fi.trace_operand(a)):
                  continue       # a parsing closure using the parser it is handed: whoever calls the closure is the site that counts
              n += 1
              roots = []
              for a in pargs:
                  for o in fi.trace_operand(a):
                      if o.kind == "agg":
                          for sub in o.ref[2][2]:
                              roots += deep_roots(prog, fi, sub, TRANSPARENT)
                      else:
                          roots += deep_roots(prog, fi, a, TRANSPARENT)
              CACHEY = {"get", "get_mut", "entry", "or_insert_with", "or_insert", "get_or_insert_with", "borrow_mut", "borrow", "lock", "with", "try_with", "get_or_init", "deref_mut"}
              cached = sorted({o.ref.name for o in roots if o.kind == "call" and o.ref.name in CACHEY} | {"static" for o in roots if o.kind == "static"} |
                              {p_[2:] for o in roots for p_ in o.proj if isinstance(p_, str) and p_.startswith("()") and p_[2:] in CACHEY})
              fresh = bool(roots) and not cached
              sl = [True]
              ctx.ob("R4", "%s hands over a fresh parser configured for the language" % f.id, fresh and bool(sl),
                     "the parser does not come out of a cache / shared cell / static (origins traced through the function and its spliced helpers)" if fresh and sl else
                     "the parser handed to the parse comes out of %s (%s): a cached parser keeps the grammar it was first configured with, so a document of another "
                     "language (same Rust type, e.g. SupportLang) is re-parsed with the wrong grammar" % (cached, sorted({describe_origin(fi, o) for o in roots})[:3]), where=f.loc(c.line))
    ctx.floor("R4", "places handing a parser to the parse in core::source", n, 1)
    # …and the parser reads the WHOLE text: a re-parse restricted to included ranges (say, the old root's range) never lexes text
    # inserted in front of the first token — the tree of the edited document lacks it, a fresh parse has it
    limited = []
    for f in sorted(prog.fns.values(), key=lambda f: f.id):
        if f.crate != "ast_grep_core" or not f.file.endswith("core/src/source.rs"):
            continue
        for c in f.calls:
            if c.bb in f.live_blocks and c.name == "set_included_ranges":
                limited.append("%s at %s" % (f.id, f.loc(c.line)))
    ctx.ob("R4", "the parse started by core::source covers the whole text", not limited,
           "no set_included_ranges on the parser that Doc::parse / parse_lang hand to the parse" if not limited else
           "the parser is limited to included ranges before the parse (%s): text outside them (an insertion before the first token of the old tree) is not parsed, "
           "the edited document's tree differs from a fresh parse of its text" % limited[:2])


def r7(ctx):
    """'a fresh parse of the same text' is the other side of the comparison: a document built from a text holds exactly that text.
    A constructor that normalises its input (strips a BOM, converts line ends) makes a fresh parse of the edited document's text differ
    from the edited document — in every byte range."""
    from ..query import identity_flow
    prog = ctx.prog
    n = 0
    for f, bi, si, st in prog.aggregates_of(r"^ast_grep_core::source::StrDoc$"):
        if f.impl_trait or f.crate != "ast_grep_core":
            continue
        ops = dict(zip(st[2][1]["fields"], st[2][2]))
        if "src" not in ops:
            continue
        n += 1
        terms, foreign = identity_flow(prog, f, ops["src"], lambda g, o: o.kind == "param" and g.locals[o.ref].lstrip("&").startswith(("str", "alloc::string::String", "'")) or
                                       (o.kind == "param" and "src" in field_path(o.proj)))
        foreign = [x for x in foreign if not x.startswith("parameter")]
        ok = bool(terms) and not foreign
        ctx.ob("R7", "StrDoc built in %s keeps the given text" % f.id, ok,
               "src = the text handed in (conversions only)" if ok else
               "the document's text is computed from the given text by %s: a fresh parse of a text no longer has that text, so it differs from the edited document holding the same text" % sorted(set(foreign)),
               where=f.loc(st[3]))
    ctx.floor("R7", "StrDoc constructors", n, 1)


def r6(ctx):
    """After do_edit the document must behave like a fresh parse of the new text in later searches, too.  Root holds the tree and the
    document; anything else stored next to them (a cached kind set, a node index, a memoised answer) was computed from the old tree and
    is stale unless do_edit rewrites it.  Rule: every field of `Root` is written (assigned or borrowed mutably) in do_edit."""
    import json
    prog = ctx.prog
    adt = prog.adts.get("ast_grep_core::node::Root")
    de0 = ctx.anchor("R6", r"^ast_grep_core::node::Root::<D>::do_edit$")
    if not adt or not de0:
        ctx.ob("R6", "Root adt", bool(adt), "struct Root not found in the facts")
        return
    fields = [fl["name"] for v in adt["variants"] for fl in v["fields"]]
    ctx.floor("R6", "fields of Root", len(fields), 2)
    de = prog.inlined(de0)
    written = set()
    for g in prog.family(de):
        for bi in sorted(g.live_blocks):
            for st in g.blocks[bi]["s"]:
                if st[0] != "A":
                    continue
                for fl in fields:
                    tag = ".%s|ast_grep_core::node::Root" % fl
                    if any(str(p_) == tag for p_ in st[1][1]):
                        written.add(fl)
                    if st[2][0] == "ref" and st[2][1] == "mut" and any(str(p_) == tag for p_ in st[2][2][1]):
                        written.add(fl)
    for fl in fields:
        ctx.ob("R6", "Root.%s is rewritten by do_edit" % fl, fl in written,
               "assigned or mutably borrowed in do_edit" if fl in written else
               "Root.%s is not touched by do_edit: whatever it caches was computed from the tree before the edit — a later search on the edited document answers from the old tree "
               "(e.g. a kind-set prefilter that has never seen the kinds the edit introduced)" % fl, where=de0.loc())
