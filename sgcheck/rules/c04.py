"""C04 — failed alternatives leave no trace: environment-effect typestate over every function that is handed the
caller's `&mut Cow<MetaVarEnv>`."""
import re
from ..query import (ultimate_roots, deep_roots, describe_origin, option_arms, bool_arms, assigns_ret_variant, closure_consumer,
                     field_path, TRANSPARENT, calls_in)

EXPLANATION = (
    "Decided: the mechanism behind 'bindings made while trying an alternative that fails never influence the outcome', for every "
    "rule and candidate order because it is a path property. R1 (failure atomicity, co-inductive over all Matcher impls): for every "
    "function that receives the caller's `&mut Cow<MetaVarEnv>`, each call that is handed that environment (an exposure) must be "
    "the last word: on the success arm of an exposure every path returns Some (or returns that very result); the result must not "
    "pass through a Some-dropping combinator (xor, filter, and_then, then_some…); an exposing closure may only be handed to "
    "Some-preserving consumers (find_map, or_else, StopBy::find, eval_local/global), never to collecting/filtering adaptors; direct "
    "writes to the caller's environment (to_mut, `*env = …`) are followed by Some on every path. The accepted idiom is "
    "scratch-and-commit: matching into `Cow::Borrowed(env.as_ref())` and assigning `*env` only on success. Unknown combinators are "
    "reported as unclassified. R2 candidate loops: stop rules are evaluated with a fresh environment (Node::matches). R3 guarded "
    "insert: the binding maps are written only by insert/insert_multi/add_label/… and there only after match_variable / "
    "match_multi_var approved the binding. R5 the approval is does_node_match_exactly(existing binding, candidate), and that predicate "
    "recurses over the unfiltered children() of both nodes in lock-step, rejecting on a kind or arity mismatch. R6 the same failure "
    "atomicity inside the pattern engine (match_tree::match_node), whose functions thread `&mut impl Aggregator`: once a call that was "
    "handed the caller's aggregator reports failure (None / NoMatch) no path reaches another call handed that aggregator — a loop that "
    "retries the next candidate (the `$$$` scan) must attempt on a scratch copy; the Skip* outcomes that do loop are shown to be produced "
    "before any aggregator call. R4 `any` restarts its scratch environment for every alternative; `all` shares one."
)
NOT_DECIDED = (
    "Structural equality as a value (R5 decides only its shape: which children/kinds are compared and rejected on); the pre-existing named-only comparison of `$$$A` sequences; that the bindings reported equal the source text (C07); "
    "constraint ordering (C13)."
)
TRUSTED = ["explicit model of Option/Iterator combinators listed in the checker (preserving / dropping); anything else is reported as unclassified",
           "co-induction: a callee that is a Matcher impl is assumed failure-atomic because every impl is checked by the same rule"]

ENV_TY = re.compile(r"^&mut alloc::borrow::Cow<'_, ast_grep_core::meta_var::MetaVarEnv<")
CRATES = ("ast_grep_core", "ast_grep_config")
PRESERVING = {"or", "or_else", "map", "inspect", "flatten", "cloned", "copied", "unwrap_or_else"}
DROPPING = {"xor", "filter", "and", "and_then", "zip", "take_if", "then", "then_some", "is_none", "ok_or", "ok_or_else", "take"}
CLOSURE_OK_CONSUMERS = {"find_map", "or_else", "eval_local", "eval_global", "find", "call_mut", "call_once", "call", "unwrap_or_else", "map_or_else"}
CLOSURE_BAD_CONSUMERS = {"filter", "filter_map", "map", "flat_map", "all", "any", "position", "take_while", "skip_while", "for_each", "count", "fold", "partition", "retain", "inspect", "map_while"}


def env_params(f):
    return [i for i in range(1, f.nargs + 1) if ENV_TY.match(f.locals[i])]


def family_env_functions(prog):
    out = []
    for f in sorted(prog.fns.values(), key=lambda f: f.id):
        if f.crate not in CRATES or f.is_closure:
            continue
        if f.id.startswith("ast_grep_core::match_tree::") or "ast_grep_core::match_tree::Aggregator" in f.id:
            continue  # pattern engine: writes into the scratch handed over by Pattern (checked separately below)
        if env_params(f):
            out.append(f)
    return out


def is_caller_env(prog, top, f, operand):
    """does operand denote (a reborrow of) the env parameter of `top` (possibly through closure captures)?"""
    for ff, o in ultimate_roots(prog, f, operand, {"deref_mut", "borrow_mut", "as_mut", "by_ref"}):
        if ff is top and o.kind == "param" and o.ref in env_params(top):
            return True
    return False


def env_pure(prog, h, stack=()):
    """a resolved workspace helper that receives an env but never hands it on (mutably) nor writes it"""
    _PURE = prog.__dict__.setdefault("_c04_pure", {})  # per-program memo
    if h.id in _PURE:
        return _PURE[h.id]
    if h.id in stack or not env_params(h):
        return False
    _PURE[h.id] = False
    res = not exposures(prog, h, stack + (h.id,)) and not direct_writes(prog, h)
    # also no assignment through the env reference
    for f in prog.family(h):
        for b in f.blocks:
            for st in b["s"]:
                if st[0] == "A" and "*" in st[1][1] and is_caller_env(prog, h, f, ["c", [st[1][0], []]]):
                    res = False
    _PURE[h.id] = res
    return res


def exposures(prog, top, stack=()):
    """calls in top and its closures that receive the caller's env"""
    out = []
    for f in prog.family(top):
        for c in f.calls:
            if c.name in ("as_ref", "deref", "borrow", "clone", "is_some", "is_none", "to_mut", "into_owned"):
                continue
            for i, a in enumerate(c.args):
                if a[0] == "k":
                    continue
                ty = f.locals[a[1][0]] if not a[1][1] else ""
                if (ENV_TY.match(ty) or "MetaVarEnv" in ty) and ty.startswith("&mut") and is_caller_env(prog, top, f, a):
                    tg = prog.call_targets(c)
                    if len(tg) == 1 and not (c.callee.get("trait") or "").endswith("::Matcher") and env_pure(prog, prog.fns[tg[0]], stack + (top.id,)):
                        break  # helper only reads the environment
                    out.append((f, c, i))
                    break
    return out


def returns_only_some_after(f, start_blocks, allow_call=None):
    """every return reachable from start_blocks assigns Some to _0 (or forwards allow_call's own result). Returns list of
    offending descriptions."""
    bad = []
    for sb in start_blocks:
        blocks = f.reachable_from(sb)
        for b in blocks:
            for s in f.blocks[b]["s"]:
                if s[0] == "A" and s[1][0] == 0 and not s[1][1]:
                    rv = s[2]
                    if rv[0] == "agg" and rv[1].get("variant") == "None":
                        bad.append("`None` returned at L%d" % s[3])
                    elif rv[0] == "agg" and rv[1].get("variant") in ("Some",):
                        pass
                    elif rv[0] == "use" and rv[1][0] != "k":
                        org = f.trace_operand(rv[1])
                        if not all((o.kind == "call" and o.ref is allow_call) or (o.kind == "agg" and o.ref[2][1].get("variant") == "Some") for o in org):
                            bad.append("returns a value that may be None at L%d" % s[3])
            t = f.blocks[b]["t"]
            if t[0] == "call" and t[3][0] == 0 and not t[3][1]:
                c = f.call_at(b)
                if c is not allow_call:
                    if c.name == "from_residual":
                        bad.append("`?` returns None at L%d" % c.line)
                    else:
                        bad.append("returns the result of %s (may be None) at L%d" % (c.name, c.line))
    return bad


def follow_result(prog, top, f, c, depth=0):
    """what happens to the Option returned by exposure c inside f. Returns list of problems (strings) and notes."""
    problems = []
    # 1. tail: result written straight to _0
    if c.dest[0] == 0 and not c.dest[1]:
        return problems
    arms = option_arms(f, c)
    users = []
    for c2 in f.calls:
        if c2 is c:
            continue
        for i, a in enumerate(c2.args):
            if any(o.kind == "call" and o.ref is c and not o.proj for o in f.trace_operand(a)):
                users.append((c2, i))
    handled = False
    if arms["some"]:
        handled = True
        bad = returns_only_some_after(f, arms["some"], allow_call=c)
        # exposures that come later on the some arm and are themselves checked are fine only if they cannot fail... they can:
        if bad:
            problems.append("after this call succeeded (environment possibly extended) the function can still fail: %s" % "; ".join(sorted(set(bad))[:3]))
    for c2, i in users:
        n = c2.name
        if n == "branch":
            continue
        if n == "is_some":
            ba = bool_arms(f, c2)
            handled = True
            if ba is None:
                # value used as a bool by the closure's consumer (e.g. `.all(|p| ..is_some())`): judged at the consumer
                if f.is_closure and c2.dest[0] == 0:
                    continue
                problems.append("is_some() result is not branched on (unclassified)")
                continue
            bad = returns_only_some_after(f, [ba["true"]], allow_call=c)
            if bad:
                problems.append("after this call succeeded the function can still fail: %s" % "; ".join(sorted(set(bad))[:3]))
            continue
        if n in PRESERVING and i == 0:
            handled = True
            problems += follow_result(prog, top, f, c2, depth + 1) if depth < 6 else []
            continue
        if n in DROPPING:
            handled = True
            problems.append("result passes through Option::%s: an inner success can become the outer failure while the bindings it made stay in the caller's environment" % n)
            continue
        if n in ("drop", "drop_in_place", "unwrap_or", "unwrap_or_default"):
            continue
        handled = True
        problems.append("result flows into `%s`, which the combinator model does not classify (unclassified)" % n)
    if not handled and not arms["none"]:
        # moved into _0 later?
        if any(o.kind == "call" and o.ref is c for o in f.trace_local(0)):
            return problems
        if f.is_closure:
            return problems  # closure result: judged at its consumer
        problems.append("cannot see what happens to the result (unclassified)")
    return problems


def closure_consumer_problems(prog, top, g):
    """g is a closure (of top) containing an exposure: who runs it?"""
    cons = closure_consumer(prog, g)
    if cons is None:
        # stored in a local and passed later (e.g. `let finder = |n| ..; stop_by.find(.., finder)`)
        parent = prog.fns.get(g.parent)
        if parent is not None:
            for c in parent.calls:
                for i, a in enumerate(c.args):
                    for o in parent.trace_operand(a):
                        if o.kind == "agg" and o.ref[2][1].get("def") == g.id:
                            cons = (parent, c, i)
        if cons is None:
            return ["closure capturing the caller's environment is created but its consumer could not be found (unclassified)"], None
    pf, pc, ai = cons
    n = pc.name
    if n in CLOSURE_OK_CONSUMERS or (n == "map" and "core::option::Option" in pc.best):
        # workspace consumer (StopBy::find, eval_local…): its own use of the closure parameter must be preserving
        tg = prog.call_targets(pc)
        if len(tg) == 1 and tg[0] in prog.fns:
            h = prog.fns[tg[0]]
            uses = closure_param_uses(prog, h, ai + 0)
            badu = [u for u in uses if u not in CLOSURE_OK_CONSUMERS and u != "map"]
            if badu:
                return ["closure handed to %s, which passes it to %s" % (h.name, badu)], pc
        return [], pc
    if n in CLOSURE_BAD_CONSUMERS:
        return ["closure that matches into the caller's environment is run by `%s`: successes on candidates that are later discarded leave their bindings behind" % n], pc
    return ["closure that matches into the caller's environment is handed to `%s` (unclassified)" % n], pc


def closure_param_uses(prog, h, argi):
    """names of calls in h (and closures) that receive parameter #argi+1 of h"""
    uses = []
    p = argi + 1
    for f in prog.family(h):
        for c in f.calls:
            for a in c.args:
                if any(ff is h and o.kind == "param" and o.ref == p for ff, o in ultimate_roots(prog, f, a, {"by_ref", "deref_mut"})):
                    uses.append(c.name)
    return uses


def direct_writes(prog, top):
    """to_mut()/assignment through the caller's env"""
    out = []
    for f in prog.family(top):
        for c in f.calls:
            if c.name == "to_mut" and c.args and is_caller_env(prog, top, f, c.args[0]):
                out.append((f, c))
    return out


def run(ctx):
    prog = ctx.prog
    ctx.rule("R1", "failure atomicity: after the caller's environment was exposed to a successful callee (or written directly) the function cannot return None, drop the success, or discard the candidate")
    ctx.rule("R2", "stop rules in candidate loops are evaluated with a fresh environment")
    ctx.rule("R3", "binding maps are written only by the guarded insert functions, after match_variable/match_multi_var approved")
    ctx.rule("R5", "the equality predicate behind a repeated meta-variable looks at every child of both nodes (no element-dropping adaptor, kinds and arity compared) and decides match_variable")
    ctx.rule("R6", "pattern engine: after an attempt on the caller's aggregator failed, the aggregator is not used again (retries run on a scratch copy)")
    ctx.rule("R4", "`any` re-initialises its scratch environment for each alternative; `all` shares one scratch and commits once")
    fns = family_env_functions(prog)
    ctx.floor("R1", "functions receiving the caller's environment", len(fns), 25)
    for top in fns:
        exps = exposures(prog, top)
        writes = direct_writes(prog, top)
        probs = []
        for f, c, i in exps:
            p = follow_result(prog, top, f, c)
            if f.is_closure:
                cp, pc = closure_consumer_problems(prog, top, f)
                p += cp
                if pc is not None and not cp:
                    # the consumer's own result (e.g. find_map(..)) is followed in the parent
                    pf = pc.fn
                    p += follow_result(prog, top, pf, pc)
            for x in p:
                probs.append("%s (L%d): %s" % (c.name, c.line, x))
        for f, c in writes:
            # what is done with the `&mut MetaVarEnv` obtained from the caller's env?
            users = [c2 for c2 in f.calls if c2 is not c and c2.args and any(o.kind == "call" and o.ref is c for o in f.trace_operand(c2.args[0]))]
            for u in users:
                if u.name in ("insert", "insert_multi"):
                    # guarded insert (R3): refuses without writing; afterwards the function must succeed
                    p = follow_result(prog, top, f, u)
                    probs += ["%s after to_mut (L%d): %s" % (u.name, u.line, x) for x in p]
                elif u.name == "match_constraints":
                    ba = bool_arms(f, u)
                    bad = returns_only_some_after(f, [ba["true"]]) if ba else ["result of match_constraints not branched on"]
                    if bad:
                        probs.append("match_constraints (L%d): constraints commit their bindings on success, yet afterwards: %s" % (u.line, "; ".join(sorted(set(bad))[:2])))
                else:
                    bad = returns_only_some_after(f, [u.target] if u.target is not None else [])
                    if f.locals[0].startswith("core::option::Option") and bad:
                        probs.append("%s after to_mut (L%d): writes the caller's environment and can still fail afterwards: %s" % (u.name, u.line, "; ".join(sorted(set(bad))[:2])))
        kind = "no exposure (does not hand the caller's environment to anyone)" if not exps and not writes else "%d exposure(s), %d direct write(s)" % (len(exps), len(writes))
        ctx.ob("R1", top.id, not probs, kind if not probs else "LEAKY — " + " || ".join(sorted(set(probs)))[:700], where=top.loc(), nontrivial=bool(exps or writes))
    # the pattern engine (match_tree) is only ever handed a scratch environment
    n_eng = 0
    for f in prog.fns.values():
        if f.crate not in CRATES:
            continue
        top = f if not f.is_closure else prog.fns.get(f.root, f)
        for c in f.calls:
            if c.best in ("ast_grep_core::match_tree::match_node_non_recursive",):
                n_eng += 1
                caller_env = env_params(top) and is_caller_env(prog, top, f, c.args[2])
                ctx.ob("R1", "engine entry in %s" % f.id, not caller_env,
                       "match_node_non_recursive is given %s" % ("the CALLER's environment: partial pattern matches would leak" if caller_env else "a scratch Cow::Borrowed copy, committed only when the pattern matched"), where=f.loc(c.line))
    ctx.floor("R1", "pattern-engine entries", n_eng, 1)
    r2(ctx)
    r3(ctx)
    r4(ctx)
    r5(ctx)
    r6(ctx)
    ctx.rule("R7", "every composite key of a rule file becomes the operator of that name (a `not:` is always an ops::Not node, whose sub-rule matches on a throw-away environment)")
    r7(ctx)
    ctx.rule("R8", "operators evaluate the sub-rules they own with the caller's bindings in view (never through the env-less Node::matches/find API), the stop rule excepted")
    r8(ctx)


def r2(ctx):
    prog = ctx.prog
    n = 0
    for f in prog.fns.values():
        if f.crate != "ast_grep_config" or not (f.id.startswith("ast_grep_config::rule::stop_by::") or "relational_rule" in f.id):
            continue
        for c in f.calls:
            if c.name == "matches" and "Node" in c.best:
                n += 1
                ctx.ob("R2", "%s uses Node::matches for the stop rule" % f.id, True, "stop rule evaluated through Node::matches (fresh MetaVarEnv)", where=f.loc(c.line), nontrivial=False)
    # inclusive_until / Has with stop rule must not call match_node_with_env on the stop rule with the caller env
    iu = prog.find_fns(r"stop_by::inclusive_until")
    ok = True
    for f in iu:
        for c in f.calls:
            if c.name == "match_node_with_env":
                ok = False
    ctx.ob("R2", "inclusive_until never matches the stop rule into a shared environment", ok and bool(iu), "closure family of inclusive_until has no match_node_with_env call")
    ctx.floor("R2", "stop-rule evaluations", n, 3)
    m = prog.find_fns(r"^ast_grep_core::node::Node::<'r, D>::matches$")
    if len(m) == 1:
        names = {c.name for c in m[0].calls}
        ctx.ob("R2", "Node::matches builds its own environment", "match_node" in names or "new" in names, "Node::matches calls %s" % sorted(names)[:6], where=m[0].loc())


def r3(ctx):
    prog = ctx.prog
    allowed = {"insert", "insert_multi", "add_label", "new", "default", "visit_nodes", "insert_transformation", "clone", "from", "match_ellipsis"}
    for field in ("single_matched", "multi_matched", "transformed_var"):
        ws = prog.field_writes(r"^ast_grep_core::meta_var::MetaVarEnv$", field)
        for f, bi, kind, line in ws:
            ok = f.name in allowed and f.crate == "ast_grep_core"
            ctx.ob("R3", "MetaVarEnv.%s %s in %s" % (field, kind, f.id), ok, "binding map written/mutably borrowed in %s" % f.name, where=f.loc(line), nontrivial=False)
    for name, guard in (("insert", "match_variable"), ("insert_multi", "match_multi_var")):
        f = ctx.anchor("R3", r"^ast_grep_core::meta_var::MetaVarEnv::<'tree, D>::%s$" % name)
        if not f:
            continue
        g = [c for c in f.calls if c.name == guard] or approving_guard(prog, f)
        ins = [c for c in f.calls if c.name == "insert" and "HashMap" in c.best]
        ok = False
        if g and ins:
            ba = bool_arms(f, g[0])
            if ba:
                fb = f.reachable_from(ba["false"], stop=[ba["true"]])
                ok = all(f.dominates(g[0].bb, i.bb) and i.bb not in fb for i in ins)
        ctx.ob("R3", "%s guarded by %s" % (name, guard), ok, "HashMap::insert happens only on the true arm of %s" % guard, where=f.loc())



def approving_guard(prog, f):
    """the call in MetaVarEnv::insert / insert_multi that approves the binding: a bool-returning method of the same type invoked on
    self whose result is branched on before HashMap::insert (match_variable / match_multi_var, whatever they are called)"""
    out = []
    for c in f.calls:
        if c.bb not in f.live_blocks or not c.dest or f.locals[c.dest[0]] != "bool" or not c.args or c.args[0][0] == "k":
            continue
        tg = [t for t in prog.call_targets(c) if t in prog.fns]
        if len(tg) != 1 or prog.fns[tg[0]].impl_self != f.impl_self or prog.fns[tg[0]].impl_trait:
            continue
        if any(o.kind == "param" and o.ref == 1 for o in f.trace_operand(c.args[0])) and bool_arms(f, c) is not None:
            out.append(c)
    return out


def deref_assigns(g, variant):
    """statements `(*p) = <Cow::variant(..)>` (possibly via a temporary)"""
    out = []
    for bi in g.live_blocks:
        for s in g.blocks[bi]["s"]:
            if s[0] == "A" and "*" in s[1][1] and s[2][0] in ("use", "agg"):
                if s[2][0] == "agg":
                    if s[2][1].get("variant") == variant:
                        out.append(bi)
                elif s[2][1][0] != "k":
                    for o in g.trace_operand(s[2][1]):
                        if o.kind == "agg" and o.ref[2][1].get("variant") == variant and "Cow" in o.ref[2][1].get("adt", ""):
                            out.append(bi)
    return out


def r4(ctx):
    prog = ctx.prog
    from ..query import loop_of
    anyf = ctx.anchor("R4", r"^<ast_grep_core::ops::Any<L, M> as ast_grep_core::matcher::Matcher<L>>::match_node_with_env$")
    if anyf:
        ok = False
        detail = "no per-alternative re-initialisation of the scratch environment found: bindings of a losing alternative would be visible to the next one"
        for g in prog.family(anyf):
            inner = [c for c in g.calls if c.name == "match_node_with_env" and c.bb in g.live_blocks]
            if not inner:
                continue
            resets = deref_assigns(g, "Borrowed") + plain_assigns(g, "Borrowed")
            good = True
            for c in inner:
                doms = [r for r in resets if g.dominates(r, c.bb)]
                if g.is_closure:
                    # the per-alternative closure: a reset anywhere before the match inside the closure body
                    good = good and bool(doms)
                else:
                    # a `for` loop over the alternatives: the reset must lie inside the loop body (executed for every alternative)
                    heads = [h.bb for h in g.calls if h.name == "next" and "Iterator" in (h.callee.get("trait") or "") and g.in_loop(h.bb) and c.bb in loop_of(g, h.bb)]
                    good = good and bool(heads) and any(r in loop_of(g, heads[-1]) for r in doms)
            if good:
                ok = True
                detail = "every alternative is matched into a scratch that was re-initialised from the incoming env for that alternative (%s)" % ("in the per-alternative closure" if g.is_closure else "inside the loop over the alternatives")
        ctx.ob("R4", "Any resets scratch per alternative", ok, detail, where=anyf.loc())
        commits = deref_assigns(anyf, "Owned")
        ctx.ob("R4", "Any commits once", len(commits) == 1, "%d assignment(s) of Cow::Owned(..) to *env" % len(commits), where=anyf.loc())
    allf = ctx.anchor("R4", r"^<ast_grep_core::ops::All<L, P> as ast_grep_core::matcher::Matcher<L>>::match_node_with_env$")
    if allf:
        resets = sum(len(deref_assigns(g, "Borrowed")) for g in prog.closures_of(allf))
        # a reset inside the loop over the sub-matchers would forget the bindings of the earlier ones
        for h in allf.calls:
            if h.name == "next" and "Iterator" in (h.callee.get("trait") or "") and allf.in_loop(h.bb):
                body = loop_of(allf, h.bb)
                resets += len([r for r in deref_assigns(allf, "Borrowed") + plain_assigns(allf, "Borrowed") if r in body])
        commits = deref_assigns(allf, "Owned")
        ctx.ob("R4", "All shares one scratch and commits once", resets == 0 and len(commits) == 1, "scratch created once outside the per-pattern closure/loop (%d resets inside), %d commit(s) of Cow::Owned to *env" % (resets, len(commits)), where=allf.loc())


def plain_assigns(g, variant):
    """blocks with `local = Cow::<variant>(..)` (a scratch declared inside a loop body)"""
    out = []
    for bi in g.live_blocks:
        for s in g.blocks[bi]["s"]:
            if s[0] == "A" and not s[1][1] and s[2][0] == "agg" and s[2][1].get("variant") == variant and "Cow" in (s[2][1].get("adt") or ""):
                out.append(bi)
    return out


from ..query import DROPPING_ITER  # noqa: E402


def _pair_compare(prog, f, a, b):
    """a, b: Calls whose results are compared with ==/!=; returns (found, rejecting): a switch on the comparison exists and its
    'unequal' arm assigns `_0 = false` without any other assignment of _0"""
    for bi in sorted(f.live_blocks):
        for s in f.blocks[bi]["s"]:
            if s[0] != "A" or s[2][0] != "bin" or s[2][1] not in ("Eq", "Ne"):
                continue
            la = [o for o in f.trace_operand(s[2][2]) if o.kind == "call"]
            lb = [o for o in f.trace_operand(s[2][3]) if o.kind == "call"]
            refs = {id(o.ref) for o in la + lb}
            if not ({id(a), id(b)} <= refs):
                continue
            for sb in sorted(f.live_blocks):
                si = f.switch_info(sb)
                if not si or "true" not in si["arms"] or si["op"][0] == "k":
                    continue
                if si["op"][1][0] != s[1][0]:
                    continue
                uneq = si["arms"]["true" if s[2][1] == "Ne" else "false"]
                eq = si["arms"]["false" if s[2][1] == "Ne" else "true"]
                region = f.reachable_from(uneq, stop=[eq])
                vals = []
                for rb in region:
                    for st in f.blocks[rb]["s"]:
                        if st[0] == "A" and st[1][0] == 0 and not st[1][1]:
                            vals.append(st[2][1][1].get("v") if st[2][0] == "use" and st[2][1][0] == "k" else "?")
                    c = f.call_at(rb)
                    if c is not None and c.dest and c.dest[0] == 0:
                        vals.append("?")
                return True, bool(vals) and set(vals) == {"false"}
    return False, False


def r5(ctx):
    prog = ctx.prog
    from ..query import iter_chain
    f = ctx.anchor("R5", r"^ast_grep_core::match_tree::does_node_match_exactly$")
    entry_ids = {f.id} if f else set()
    if f:
        # a thin wrapper (`pub fn does_node_match_exactly(a, b) { is_structurally_equal(a, b) }`): the predicate is the wrapped function
        for _ in range(3):
            own = [c for c in f.calls if c.bb in f.live_blocks]
            tg = [t for c in own for t in prog.call_targets(c) if t in prog.fns and prog.fns[t].crate == f.crate and t != f.id]
            if len(own) == 1 and len(tg) == 1 and prog.fns[tg[0]].nargs == f.nargs and all(
                    a[0] != "k" and any(o.kind == "param" and o.ref == i + 1 for o in f.trace_operand(a)) for i, a in enumerate(own[0].args)):
                f = prog.fns[tg[0]]
                entry_ids.add(f.id)
            else:
                break
    if f:
        fam = prog.family(f)
        rec = [(g, c) for g in fam for c in g.calls if prog.call_targets(c) == [f.id]]
        ctx.ob("R5", "does_node_match_exactly/recursive", bool(rec), "%d recursive call(s) compare the children" % len(rec), where=f.loc())
        adaptors, leaves = [], []
        for g, c in rec:
            for a in c.args[:2]:
                ad, lv = iter_chain(prog, g, a)
                adaptors += ad
                leaves += lv
        kids = {}
        other = []
        for lf, o in leaves:
            if o.kind == "call" and o.ref.name == "children" and o.ref.best.startswith("ast_grep_core::node::Node"):
                for r in deep_roots(prog, lf, o.ref.args[0], TRANSPARENT):
                    if lf is f and r.kind == "param":
                        kids[r.ref] = o.ref
            else:
                other.append(describe_origin(lf, o))
        ctx.ob("R5", "does_node_match_exactly/children of both nodes", set(kids) == {1, 2} and not other,
               "the nodes handed to the recursive call are items of goal.children() and candidate.children()" if set(kids) == {1, 2} and not other else
               "the recursion is not fed from children() of both parameters (children of params %s; other sources %s)" % (sorted(kids), other[:3]), where=f.loc())
        drop = sorted({c.name for g, c in adaptors if c.name in DROPPING_ITER})
        ctx.ob("R5", "does_node_match_exactly/no child is dropped", not drop,
               "pipeline between children() and the recursive comparison: %s — no element-dropping adaptor" % sorted({c.name for g, c in adaptors}) if not drop else
               "children are passed through %s before being compared: nodes that differ only in the dropped children (operators, keywords, punctuation) "
               "are accepted as 'the same code' for a repeated meta-variable" % drop, where=f.loc())
        def on_param(name, i):
            return [c for c in f.calls if c.name == name and c.args and any(o.kind == "param" and o.ref == i for o in deep_roots(prog, f, c.args[0], TRANSPARENT))]
        k1, k2 = on_param("kind_id", 1), on_param("kind_id", 2)
        found, rej = _pair_compare(prog, f, k1[0], k2[0]) if k1 and k2 else (False, False)
        ctx.ob("R5", "does_node_match_exactly/kinds compared", found and rej, "kind_id() of both nodes compared; a mismatch returns false" if found and rej else "no kind comparison that rejects on mismatch", where=f.loc())
        if any(c.name == "zip" for g, c in adaptors) and set(kids) == {1, 2}:
            lens = {}
            for c in f.calls:
                if c.name == "len" and c.args:
                    for o in deep_roots(prog, f, c.args[0], TRANSPARENT):
                        for i, kc in kids.items():
                            if o.kind == "call" and o.ref is kc:
                                lens[i] = c
            found, rej = _pair_compare(prog, f, lens[1], lens[2]) if set(lens) == {1, 2} else (False, False)
            ctx.ob("R5", "does_node_match_exactly/arity compared before zip", found and rej,
                   "zip truncates to the shorter side: the child counts are compared first and a mismatch returns false" if found and rej else
                   "children are zipped (truncating) without a rejecting length comparison: a node equals any node of which it is a prefix", where=f.loc())
    def guard_fn(insert_name, default_name):
        fs = prog.find_fns(r"^ast_grep_core::meta_var::MetaVarEnv::<'tree, D>::%s$" % default_name)
        if len(fs) == 1:
            return fs[0]
        ins = prog.find_fns(r"^ast_grep_core::meta_var::MetaVarEnv::<'tree, D>::%s$" % insert_name)
        if len(ins) == 1:
            gs = approving_guard(prog, ins[0])
            if len(gs) == 1:
                return prog.fns[prog.call_targets(gs[0])[0]]
        return ctx.anchor("R5", r"^ast_grep_core::meta_var::MetaVarEnv::<'tree, D>::%s$" % default_name)
    mv = guard_fn("insert", "match_variable")
    if mv and f:
        gets = [c for c in mv.calls if c.name == "get" and any(o.kind == "param" and o.ref == 1 and "single_matched" in field_path(o.proj) for o in deep_roots(prog, mv, c.args[0], TRANSPARENT))]
        eqs = [c for c in mv.calls if len(prog.call_targets(c)) == 1 and prog.call_targets(c)[0] in entry_ids]
        ok = False
        detail = "no lookup of the existing binding / no call of does_node_match_exactly"
        if gets and eqs:
            a0 = any(o.kind == "call" and o.ref is gets[0] for o in deep_roots(prog, mv, eqs[0].args[0], TRANSPARENT - {"get"}))
            a1 = any(o.kind == "param" and o.ref == 3 for o in deep_roots(prog, mv, eqs[0].args[1], TRANSPARENT))
            arms = option_arms(mv, gets[0])
            consts = []
            for sb in arms["some"]:
                for rb in mv.reachable_from(sb, stop=arms["none"]):
                    for st in mv.blocks[rb]["s"]:
                        if st[0] == "A" and st[1][0] == 0 and not st[1][1]:
                            consts.append(rb)
            dest_ok = eqs[0].dest and eqs[0].dest[0] == 0
            ok = a0 and a1 and bool(arms["some"]) and not consts and bool(dest_ok)
            detail = ("an already bound variable is approved only by does_node_match_exactly(existing binding, candidate)" if ok else
                      "existing binding as goal: %s; candidate parameter: %s; result returned unmodified: %s; other assignments of the result on the bound arm: %s" % (a0, a1, bool(dest_ok), consts))
        ctx.ob("R5", "match_variable decided by does_node_match_exactly", ok, detail, where=mv.loc())
    mm = guard_fn("insert_multi", "match_multi_var")
    if mm and f:
        eqs = [c for c in mm.calls if len(prog.call_targets(c)) == 1 and prog.call_targets(c)[0] in entry_ids]
        ok = False
        if eqs:
            ba = bool_arms(mm, eqs[0])
            if ba:
                region = mm.reachable_from(ba["false"], stop=[ba["true"]])
                vals = []
                for rb in region:
                    for st in mm.blocks[rb]["s"]:
                        if st[0] == "A" and st[2][0] == "use" and st[2][1][0] == "k" and st[2][1][1].get("ty") == "bool" and "bool" == mm.locals[st[1][0]]:
                            vals.append(st[2][1][1].get("v"))
                ok = "false" in vals and "true" not in vals
        ctx.ob("R5", "match_multi_var rejects on an unequal pair", ok, "a pair for which does_node_match_exactly is false ends the comparison with false", where=mm.loc())
        # "not bound yet" (anything is accepted) must mean: the key is absent.  A variable bound to ZERO nodes is bound.
        mmi = prog.inlined(mm)
        looks = [c for c in mmi.calls if c.bb in mmi.live_blocks and c.name in ("get", "contains_key", "get_key_value", "entry") and c.args and
                 any(o.kind == "param" and o.ref == 1 and "multi_matched" in field_path(o.proj) for o in deep_roots(prog, mmi, c.args[0], TRANSPARENT))]
        arms = None
        for c in looks:
            arms = option_arms(mmi, c) if c.name != "contains_key" else None
            if c.name == "contains_key":
                ba = bool_arms(mmi, c)
                arms = {"some": [ba["true"]], "none": [ba["false"]]} if ba else None
            if arms and arms["some"] and arms["none"]:
                break
        ok = bool(arms and arms["some"] and arms["none"])
        if not ok and looks:
            # combinator form: `self.multi_matched.get(id).map_or(true, |nodes| …)` — the miss arm is the combinator's default
            comb = [c for c in mmi.calls if c.name in ("map_or", "is_none_or", "map_or_else", "map", "and_then", "is_some_and", "filter", "unwrap_or", "unwrap_or_else") and c.args and
                    any(o.kind == "call" and o.ref in looks for o in deep_roots(prog, mmi, c.args[0], TRANSPARENT - {"get"}))]
            if comb:
                ok = True
                arms = None
        ctx.ob("R5", "match_multi_var/unbound means key absent", ok,
               "the existing binding is looked up in multi_matched and the comparison is skipped only on the lookup's miss arm" if ok else
               "match_multi_var does not branch on a key lookup in multi_matched (lookups found: %s): 'never bound' cannot be told from 'bound to zero nodes', "
               "so after `$$$A` matched nothing a second `$$$A` accepts anything" % [c.name for c in looks], where=mm.loc())
        if ok and arms:
            nexts = {"bound": [], "cand": []}
            for c in mmi.calls:
                if c.name != "next" or not c.args or c.bb not in mmi.live_blocks:
                    continue
                _, leaves = iter_chain(prog, mmi, c.args[0])
                for lf, o in leaves:
                    if lf is mmi and o.kind == "param" and o.ref == 3:
                        nexts["cand"].append(c.bb)
                    if o.kind == "call" and (o.ref in looks or any(r.kind == "call" and r.ref in looks for r in deep_roots(prog, lf, o.ref.args[0], TRANSPARENT) if o.ref.args)):
                        nexts["bound"].append(c.bb)
                    if lf is mmi and o.kind == "param" and o.ref == 1 and "multi_matched" in field_path(o.proj):
                        nexts["bound"].append(c.bb)
            if nexts["bound"] and nexts["cand"]:
                region = set()
                for sb in arms["some"]:
                    region |= set(mmi.reachable_from(sb, stop=arms["none"]))
                bad = []
                for rb in sorted(region):
                    for st in mmi.blocks[rb]["s"]:
                        if st[0] == "A" and st[2][0] == "use" and st[2][1][0] == "k" and st[2][1][1].get("ty") == "bool" and st[2][1][1].get("v") == "true" and mmi.locals[st[1][0]] == "bool":
                            if not (any(mmi.dominates(n, rb) for n in nexts["bound"]) and any(mmi.dominates(n, rb) for n in nexts["cand"])):
                                bad.append(mmi.loc(st[3]))
                ctx.ob("R5", "match_multi_var/bound: true only after both sequences are exhausted", not bad,
                       "on the bound arm `true` is produced only after next() was taken from the bound nodes and from the candidates" if not bad else
                       "on the bound arm the function answers true without having advanced both sequences (%s): a bound `$$$A` accepts candidates it was never compared with" % bad[:3],
                       where=mm.loc())


def r7(ctx):
    """`not` exposes no variables and lets no binding of its sub-rule influence the outcome because `ops::Not` matches its sub-rule on a
    throw-away environment.  That only holds if the rule tree really contains a Not node wherever the rule file says `not:` (likewise
    all/any/matches): the deserialiser of the composite keys pushes, for each key, the operator of that name on every path."""
    prog = ctx.prog
    f0 = ctx.anchor("R7", r"^ast_grep_config::rule::deserialze_composite_rule$")
    if not f0:
        return
    f = prog.inlined(f0)
    want = {"all": "All", "any": "Any", "not": "Not", "matches": "Matches"}
    pushes = [c for c in f.calls if c.name == "push" and c.bb in f.live_blocks and len(c.args) == 2 and c.args[1][0] != "k" and "Rule<" in f.locals[c.args[1][1][0]] and
              any(o.kind == "param" and o.ref == 2 for o in deep_roots(prog, f, c.args[0], TRANSPARENT))]   # pushes onto the output parameter, not onto a helper's local vector
    ctx.floor("R7", "rules pushed by deserialze_composite_rule", len(pushes), 4)
    tests = {}
    for bi in sorted(f.live_blocks):
        si = f.switch_info(bi)
        if not si or not si.get("enum") or not si["enum"].startswith("core::option::Option") or si["place"] is None:
            continue
        for o in f.trace_place(si["place"]):
            if o.kind == "param" and o.ref == 1:
                fl = [x for x in field_path(o.proj) if x in want]
                if fl and "Some" in si["arms"]:
                    tests.setdefault(fl[0], []).append((bi, si["arms"]["Some"], si["arms"].get("None")))
    ctx.ob("R7", "deserialze_composite_rule/tests of the composite keys", set(tests) == set(want), "keys tested: %s" % sorted(tests), where=f0.loc())
    first = {}
    for key, l in tests.items():
        doms = [t for t in l if not any(t2[0] != t[0] and f.dominates(t2[0], t[0]) for t2 in l)]
        first[key] = doms[0]
    for key, variant in sorted(want.items()):
        if key not in first:
            continue
        bi, some, none = first[key]
        stops = [t[0] for k2, t in first.items() if k2 != key] + ([none] if none is not None else [])
        region = set(f.reachable_from(some, stop=stops)) - set(stops)
        mine = [c for c in pushes if c.bb in region]
        bad = []
        for c in mine:
            vs = set()
            for o in f.trace_operand(c.args[1]):
                if o.kind == "agg" and o.ref[2][1].get("variant"):
                    vs.add(o.ref[2][1]["variant"])
                else:
                    vs.add("a %s that is not built here" % (o.kind if o.kind != "call" else "result of " + o.ref.name))
            if vs != {variant}:
                bad.append(sorted(vs))
        ctx.ob("R7", "deserialze_composite_rule/`%s` builds Rule::%s" % (key, variant), bool(mine) and not bad,
               "%d push(es), each of a Rule::%s built in this arm" % (len(mine), variant) if mine and not bad else
               "the `%s` key does not always produce a Rule::%s node (%s): e.g. `not: {not: R}` rewritten to plain R lets R's bindings escape the negation — variables bound only under a "
               "`not` appear in the match and constrain later occurrences" % (key, variant, bad or "no push found"), where=f0.loc())


ENVLESS_API = {"matches", "find", "find_all", "match_node", "has", "inside", "follows", "precedes", "find_node"}


def r8(ctx):
    """same-name occurrences must be identical ACROSS sub-rules: a sub-rule has to be evaluated against (a scratch copy of) the bindings
    made so far.  An operator that evaluates a sub-rule it owns through the env-less API (Node::matches / find / MatcherExt::match_node
    start from an empty environment) lets the sub-rule bind the shared names afresh — `not: {inside: {pattern: if ($OBJ) …}}` then
    rejects nodes because of some other `$OBJ`.  The stop rule of relational operators is the documented exception (fresh environment by
    design, R2)."""
    from .c01 import matcher_impls
    prog = ctx.prog
    n = 0
    for impl in matcher_impls(prog):
        st = impl["self"]
        if not (st.startswith("ast_grep_core::ops::") or st.startswith("ast_grep_config::rule")):
            continue
        m = prog.impl_method(impl, "match_node_with_env")
        if m is None:
            continue
        n += 1
        mi = prog.inlined(m)
        bad = []
        for g in prog.family(mi):
            for c in g.calls:
                if c.bb not in g.live_blocks or c.name not in ENVLESS_API or len(c.args) < 2:
                    continue
                tr = c.callee.get("trait") or ""
                if not ("ast_grep_core::node::Node" in c.best or tr.endswith("::MatcherExt") or tr.endswith("::Matcher")):
                    continue
                for a in c.args:
                    if a[0] == "k":
                        continue
                    for ff, o in ultimate_roots(prog, g, a, TRANSPARENT | {"deref", "inner"}):
                        if ff.id == mi.id and o.kind == "param" and o.ref == 1:
                            fields = field_path(o.proj)
                            if fields and not any("stop" in x.lower() for x in fields) and "StopBy" not in " ".join(map(str, o.proj)):
                                bad.append("%s(self.%s)" % (c.name, fields[0]))
        ctx.ob("R8", "%s evaluates its sub-rules with the bindings made so far" % st, not bad,
               "no env-less evaluation of an own sub-rule" if not bad else
               "%s evaluates an own sub-rule through the env-less API (%s): inside it a meta-variable bound by the enclosing rule is free again, so a repeated name no longer has to "
               "denote the same code" % (st.split("::")[-1].split("<")[0], sorted(set(bad))), where=m.loc())
    ctx.floor("R8", "combinator/rule Matcher impls", n, 10)
    # …and a sub-rule whose variables the rule exposes must bind them in the CALLER's environment at least once (C12 R6): if an operator
    # only ever evaluates it on scratch environments, a later occurrence of the same name is unconstrained
    from . import c12
    from ..core import Ctx
    sub = Ctx("C12", ctx.tier, prog)
    reach, bearing = c12.rule_bearing(prog)
    c12.r6(sub, bearing)
    k = 0
    for o in sub.obligations:
        if "some evaluation binds into the caller's environment" in o["key"]:
            k += 1
            ctx.ob("R8", o["key"].split(":", 1)[1], o["ok"], o["detail"], where=o.get("where"), nontrivial=o.get("nontrivial", True))
    ctx.floor("R8", "own-environment obligations shared with C12 R6", k, 3)


AGG_TY = re.compile(r"^&mut impl Aggregator<")
REBORROW = {"deref_mut", "as_mut", "by_ref", "borrow_mut"}


def r6(ctx):
    prog = ctx.prog
    fns = [f for f in prog.find_fns(r"^ast_grep_core::match_tree::match_node::") if not f.is_closure and any(AGG_TY.match(f.locals[i]) for i in range(1, f.nargs + 1))]
    ctx.floor("R6", "engine functions threading the aggregator", len(fns), 5)
    for f in sorted(fns, key=lambda f: f.id):
        ps = [i for i in range(1, f.nargs + 1) if AGG_TY.match(f.locals[i])]
        fam = prog.family(f)
        if len(fam) > 1:
            for g in fam[1:]:
                used = [c for c in g.calls for a in c.args if a[0] != "k" and any(ff is f and o.kind == "param" and o.ref in ps for ff, o in ultimate_roots(prog, g, a, REBORROW))]
                ctx.ob("R6", "%s/closure %s" % (f.name, g.id.rsplit("::", 1)[-1]), not used, "closures do not touch the aggregator" if not used else "aggregator used inside a closure (not modelled)", where=g.loc())
        def exposing(c):
            return any(a[0] != "k" and any(o.kind == "param" and o.ref in ps for o in deep_roots(prog, f, a, REBORROW)) for a in c.args)
        E = [c for c in f.calls if exposing(c)]
        for c in E:
            dty = f.locals[c.dest[0]] if c.dest else ""
            fail = []
            if dty.startswith("core::option::Option"):
                fail = list(option_arms(f, c)["none"])
            elif dty.endswith("MatchOneNode"):
                for bi in sorted(f.live_blocks):
                    si = f.switch_info(bi)
                    if not si or not si.get("enum") or si["place"] is None or not si["enum"].endswith("MatchOneNode"):
                        continue
                    if any(o.kind == "call" and o.ref is c for o in f.trace_place(si["place"])):
                        fail.append(si["arms"]["NoMatch"])
            again = []
            for fb in fail:
                region = f.reachable_from(fb)
                again += [c2 for c2 in E if c2.bb in region]
            ordinal = [x for x in E if x.name == c.name].index(c)
            ctx.ob("R6", "%s/after failed %s#%d" % (f.name, c.name, ordinal), not again,
                   ("failure arm(s) bb%s never reach another use of the caller's aggregator" % fail) if fail and not again else
                   ("result is returned/propagated unexamined" if not fail else
                    "after %s failed on the caller's aggregator (which it may have written), control reaches %s with the same aggregator: bindings of the "
                    "rejected candidate stay visible to the next attempt; attempt on a scratch copy and commit on success" % (c.name, sorted({"%s (L%d)" % (x.name, x.line) for x in again}))),
                   where=f.loc(c.line))
    # the Skip* outcomes (which legitimately continue with the same aggregator) are produced before any aggregator call
    mi = ctx.anchor("R6", r"^ast_grep_core::match_tree::match_node::match_node_impl$")
    if mi:
        ps = [i for i in range(1, mi.nargs + 1) if AGG_TY.match(mi.locals[i])]
        E = [c for c in mi.calls if any(a[0] != "k" and any(o.kind == "param" and o.ref in ps for o in deep_roots(prog, mi, a, REBORROW)) for a in c.args)]
        bad = []
        n = 0
        for bi in sorted(mi.live_blocks):
            for st in mi.blocks[bi]["s"]:
                if st[0] == "A" and st[1][0] == 0 and not st[1][1]:
                    n += 1
                    if st[2][0] == "agg" and st[2][1].get("variant") in ("MatchedBoth", "NoMatch"):
                        continue
                    # a computed outcome: must come from a call that is not handed the aggregator, with no aggregator call before it
                    srcs = mi.trace_operand(st[2][1]) if st[2][0] == "use" else []
                    ok = bool(srcs) and all(o.kind == "call" and o.ref not in E for o in srcs)
                    before = [c for c in E if bi in mi.reachable_from(c.bb)]
                    if not ok or before:
                        bad.append("bb%d" % bi)
            c = mi.call_at(bi)
            if c is not None and c.dest and c.dest[0] == 0 and not c.dest[1]:
                n += 1
                if c in E or [c2 for c2 in E if bi in mi.reachable_from(c2.bb)]:
                    bad.append("bb%d" % bi)
        ctx.ob("R6", "match_node_impl/Skip* outcomes precede aggregator writes", n >= 3 and not bad,
               "%d return assignments: MatchedBoth/NoMatch constants, or the outcome of strictness.match_terminal passed through before any aggregator call" % n if not bad else
               "a computed outcome is returned after/through an aggregator call (%s): callers that continue on Skip* would continue with a written aggregator" % bad, where=mi.loc())
