"""C20 — meta-variable syntax is uniform across languages: impl-table uniformity rules over all Language impls."""
import re
from ..query import deep_roots, ultimate_roots, describe_origin, field_path, TRANSPARENT, self_switches, arm_blocks, calls_in, receiver_roots, proj_variants

LANG = "ast_grep_core::language::Language"
SYNTAX_METHODS = ("meta_var_char", "expando_char", "pre_process_pattern", "extract_meta_var")

EXPLANATION = (
    "Decided (from the compiler's impl tables and MIR, for all 23 built-in languages and every wrapper): R1 every language ends in "
    "the one recogniser: the trait default extract_meta_var calls core's extract_meta_var with the language's own expando_char, and "
    "every impl either inherits it or forwards it to a wrapped language; wrapper impls (SupportLang, SgLang, DynamicLang, NapiLang) "
    "forward each of meta_var_char / expando_char / pre_process_pattern / extract_meta_var that a wrapped language really "
    "overrides, per enum variant. R2 a built-in language overrides expando_char iff it overrides pre_process_pattern, the latter "
    "resolving to the shared language::pre_process_pattern(self.expando_char(), query); the expando is a constant different from "
    "`$`; no built-in language overrides meta_var_char (templates scan for `$` everywhere). R3 the language table is exhaustive: "
    "SupportLang::all_langs() has as many entries as SupportLang has variants, and the dispatch of each syntax method has an arm "
    "for every variant calling that variant's own language struct. R4 template-side and pattern-side recognisers share one "
    "character class (C12-R5). R5 units of the substring notation: every length/default handed to resolve_char by Substring::compute is a "
    "CHARACTER count (length of a Vec<char>/[char], or Chars::count) and never a byte length (str/String/[u8]::len), and the resolved "
    "indices are applied to a character sequence (Vec<char>/[char] indexing or skip/take over chars), never to a str byte slice — the part "
    "of 'Python slice semantics on characters' that is visible in the shape of the code; resolve_char's negative-index arm adds the "
    "same `len` it clamps with."
)
NOT_DECIDED = (
    "The small notations: An+B index arithmetic, substring slice arithmetic as values (R5 decides only the unit discipline), and the bounded-exhaustive string clauses are value "
    "level (their crash behaviour is audited under C11); that each grammar tokenises the expando character as an identifier character."
)
TRUSTED = ["compiler impl tables and MIR", "tree-sitter grammars accept the chosen expando characters inside identifiers"]


def impl_of(prog, self_ty):
    for i in prog.impls_of(LANG):
        if i["self"] == self_ty:
            return i
    return None


def pure_forward(prog, impl, m):
    """(is_forward, receiver self types) for impl's method m"""
    fn = prog.impl_method(impl, m)
    if fn is None:
        return False, []
    recv = []
    for c in calls_in(prog, fn, fn.live_blocks):
        if c.callee.get("trait") == LANG and c.name == m and c.args:
            st = (c.callee.get("self") or "?").lstrip("&")
            derived = any(o.kind == "param" and o.ref == 1 for ff, o in ultimate_roots(prog, c.fn, c.args[0], TRANSPARENT | {"inner", "deref"}))
            # enum dispatch to unit structs (`match self { S::Rust => Rust.m(..) }`): the receiver is a constant of another type
            if derived or st != impl["self"]:
                recv.append(st)
    return bool(recv), recv


def really_overrides(prog, self_ty, m, depth=0):
    impl = impl_of(prog, self_ty.lstrip("&"))
    if impl is None:
        return False
    if m in impl.get("inherited", []):
        return False
    fw, recv = pure_forward(prog, impl, m)
    if not fw or depth > 4:
        return True
    return any(really_overrides(prog, r, m, depth + 1) for r in recv)


def r10(ctx):
    """pattern conversion shows EVERY node's text to the recogniser: in extract_var_from_node (or whoever calls extract_meta_var on the
    way from convert_node_to_pattern) no return is reachable without the call.  A shortcut in front of it ("a variable is one token")
    is a second, language-dependent recogniser: Bash parses `$$A` / `$$$A` into a `concatenation` of two named nodes."""
    from ..query import path_avoiding
    prog = ctx.prog
    conv = ctx.anchor("R10", r"^ast_grep_core::matcher::pattern::convert_node_to_pattern$")
    if not conv:
        return
    n = 0
    for f in [conv] + [g for g in prog.find_fns(r"^ast_grep_core::matcher::pattern::extract_var_from_node$")]:
        fi = prog.inlined(f) if f is conv else f
        calls = [c for c in fi.calls if c.bb in fi.live_blocks and c.name in ("extract_meta_var", "extract_var_from_node")]
        if not calls:
            continue
        n += 1
        rets = [b for b in fi.live_blocks if fi.blocks[b]["t"][0] == "ret"]
        skip = path_avoiding(fi, 0, {c.bb for c in calls}, rets)
        ctx.ob("R10", "%s asks the recogniser on every path" % f.id.rsplit("::", 1)[-1], not skip,
               "no return is reachable without the call of %s" % sorted({c.name for c in calls}) if not skip else
               "a return is reachable without asking Language::extract_meta_var: some pattern nodes are declared 'not a variable' by a local shortcut, "
               "so a spelling that is a variable in one language is literal text in another", where=f.loc())
    ctx.floor("R10", "functions between convert_node_to_pattern and the recogniser", n, 2)


def run(ctx):
    prog = ctx.prog
    ctx.rule("R10", "pattern conversion shows every node to the shared recogniser: no return in front of the extract_meta_var call")
    r10(ctx)
    ctx.rule("R1", "one recogniser: default extract_meta_var uses the language's expando; wrappers forward every syntax method a wrapped language really overrides")
    ctx.rule("R2", "built-in languages: expando_char overridden <=> pre_process_pattern overridden and resolving to the shared routine with the language's own expando; meta_var_char never overridden")
    ctx.rule("R3", "language table exhaustive: all_langs length == number of SupportLang variants; per-variant dispatch of the syntax methods")
    ctx.rule("R5", "substring indices are character counts end to end (no byte length reaches resolve_char or the slicing)")
    ctx.rule("R4", "one character class for pattern-side and template-side recognisers")
    impls = prog.impls_of(LANG)
    ctx.floor("R1", "Language impls", len(impls), 27)
    # default extract_meta_var
    d = ctx.anchor("R1", r"^ast_grep_core::language::Language::extract_meta_var$")
    if d:
        em = [c for c in d.calls if c.best == "ast_grep_core::meta_var::extract_meta_var"]
        ok = False
        if em:
            roots = deep_roots(prog, d, em[0].args[1])
            ok = any(o.kind == "call" and o.ref.name == "expando_char" for o in roots)
        ctx.ob("R1", "default extract_meta_var", ok, "Language::extract_meta_var = meta_var::extract_meta_var(source, self.expando_char())", where=d.loc())
    builtins = []
    wrappers = []
    for impl in impls:
        st = impl["self"]
        if st.startswith("ast_grep_language::") and st != "ast_grep_language::SupportLang":
            builtins.append(impl)
        elif st.startswith("tree_sitter"):
            continue
        else:
            wrappers.append(impl)
    ctx.floor("R2", "built-in language structs", len(builtins), 23)
    # ---- R1 wrappers ----------------------------------------------------------------------------
    for impl in wrappers:
        st = impl["self"]
        for m in SYNTAX_METHODS:
            # which wrapped types does this wrapper forward ANY method to
            wrapped = set()
            for m2 in [x["name"] for x in impl["items"]]:
                fw, recv = pure_forward(prog, impl, m2)
                wrapped |= set(recv)
            wrapped = {w.lstrip("&") for w in wrapped if w and w != "?"}
            if not wrapped:
                continue
            need = sorted(w for w in wrapped if really_overrides(prog, w, m))
            inherits = m in impl.get("inherited", [])
            if inherits:
                ctx.ob("R1", "%s/%s" % (st, m), not need, "inherits the default `%s`; wrapped languages that really override it: %s" % (m, need or "none"), where=None)
            else:
                fw, recv = pure_forward(prog, impl, m)
                if st == "ast_grep_dynamic::DynamicLang" or (st.endswith("NapiLang") and not fw):
                    # takes the characters from its own registration data (user configuration), not from a wrapped language
                    ctx.ob("R1", "%s/%s" % (st, m), True, "defined from the wrapper's own registration data", nontrivial=False)
                    continue
                ctx.ob("R1", "%s/%s" % (st, m), fw, ("forwards `%s` to %s" % (m, sorted(set(recv)))) if fw else "overrides `%s` without forwarding to the wrapped language" % m,
                       where=prog.impl_method(impl, m).loc() if prog.impl_method(impl, m) else None)
    # ---- R2 -------------------------------------------------------------------------------------
    # the shared pre-processing routine, whatever it is called: the free function of the language crate that the
    # pre_process_pattern methods of the built-in languages call (majority; the minority is reported per language below)
    from collections import Counter
    votes = Counter()
    for impl in builtins:
        if "pre_process_pattern" in impl.get("inherited", []):
            continue
        pp = prog.impl_method(impl, "pre_process_pattern")
        if pp is None:
            continue
        for c in pp.calls:
            for t in prog.call_targets(c):
                g = prog.fns.get(t)
                if g is not None and g.crate == "ast_grep_language" and not g.impl_self and not g.is_closure:
                    votes[t] += 1
    shared_id = votes.most_common(1)[0][0] if votes else "ast_grep_language::pre_process_pattern"
    ctx.ob("R2", "shared pre-processing routine identified", bool(votes), "%s is called by the pre_process_pattern of %d built-in languages" % (shared_id, votes.get(shared_id, 0)), nontrivial=False)
    for impl in builtins:
        st = impl["self"]
        inh = set(impl.get("inherited", []))
        exp_over = "expando_char" not in inh
        pre_over = "pre_process_pattern" not in inh
        mv_over = "meta_var_char" not in inh
        emv_over = "extract_meta_var" not in inh
        detail = "expando_char %s, pre_process_pattern %s" % ("overridden" if exp_over else "inherited ($)", "overridden" if pre_over else "inherited (identity)")
        ok = exp_over == pre_over and not mv_over and not emv_over
        if ok and exp_over:
            pp = prog.impl_method(impl, "pre_process_pattern")
            cs = [c for c in pp.calls if c.best == shared_id]
            shared = False
            if cs:
                roots = deep_roots(prog, pp, cs[0].args[0])
                shared = any(o.kind == "call" and o.ref.name == "expando_char" and any(x.kind == "param" and x.ref == 1 for x in pp.trace_operand(o.ref.args[0])) for o in roots)
            ec = prog.impl_method(impl, "expando_char")
            const = None
            for bi in ec.live_blocks:
                for s in ec.blocks[bi]["s"]:
                    if s[0] == "A" and s[1][0] == 0 and s[2][0] == "use" and s[2][1][0] == "k":
                        const = s[2][1][1].get("v")
            ok = shared and const is not None and const != "'$'"
            detail += "; pre_process_pattern -> language::pre_process_pattern(self.expando_char(), ..): %s; expando = %s" % (shared, const)
        if not ok and exp_over != pre_over:
            detail += " — a language that changes its expando without rewriting `$` in patterns (or the reverse) can never recognise `$A`"
        if mv_over:
            detail += " — meta_var_char overridden: fix templates would look for another sigil than `$`"
        ctx.ob("R2", st, ok, detail, where=None)
    # ---- R3 -------------------------------------------------------------------------------------
    adt = prog.adts.get("ast_grep_language::SupportLang")
    al = ctx.anchor("R3", r"^ast_grep_language::SupportLang::all_langs$")
    if adt and al:
        nvar = len(adt["variants"])
        m = None
        for t in al.locals:
            mm = re.search(r"\[ast_grep_language::SupportLang; (\d+)\]", t)
            if mm:
                m = int(mm.group(1))
        ctx.ob("R3", "all_langs covers every variant", m == nvar, "all_langs() is an array of %s entries; SupportLang has %d variants" % (m, nvar), where=al.loc())
        ctx.floor("R3", "SupportLang variants", nvar, 23)
        simpl = impl_of(prog, "ast_grep_language::SupportLang")
        if simpl:
            for meth in ("expando_char", "pre_process_pattern", "extract_meta_var", "meta_var_char"):
                fn = prog.impl_method(simpl, meth)
                if fn is None:
                    ctx.ob("R3", "SupportLang::%s" % meth, False, "not overridden by SupportLang although languages override it")
                    continue
                sws = self_switches(fn, r"SupportLang")
                if not sws:
                    ctx.ob("R3", "SupportLang::%s/switch" % meth, False, "no match over self", where=fn.loc())
                    continue
                bi, si = sws[0]
                arms = arm_blocks(fn, si)
                bad = []
                for v in [x["name"] for x in adt["variants"]]:
                    calls = [c for c in fn.calls if c.bb in arms.get(v, set()) and c.name == meth]
                    want = "ast_grep_language::%s" % v if v != "Html" else "ast_grep_language::html::Html"
                    if not any((c.callee.get("self") or "").lstrip("&") == want for c in calls):
                        bad.append(v)
                ctx.ob("R3", "SupportLang::%s dispatch" % meth, not bad, "each of the %d variants calls its own language struct's %s" % (nvar, meth) if not bad else "variants dispatching to another language (or none): %s" % bad, where=fn.loc())
    # ---- R4 -------------------------------------------------------------------------------------
    from . import c12
    from ..core import Ctx
    sub = Ctx("C12", ctx.tier, prog)
    c12.r5(sub)
    for o in sub.obligations:
        ctx.ob("R4", o["key"].split(":", 1)[1], o["ok"], o["detail"], where=o["where"])

    r5(ctx)
    ctx.rule("R6", "template scanner keeps literal text: the position literal fragments are cut from advances only when a variable was consumed (a `$` that is no variable stays in the text)")
    r6(ctx)
    r6b(ctx)
    ctx.rule("R9", "wherever the matching engine distinguishes variables by their named-only flag, the non-capturing hole (Dropped) and the capture (Capture) of the same sigil count are treated alike")
    r9(ctx)
    ctx.rule("R8", "`$_`/`$$_` accept exactly the nodes `$A`/`$$A` accept: both arms of match_leaf_meta_var reject exactly (named-only variable, unnamed candidate) — decided by evaluating each arm over the four cases")
    r8(ctx)
    ctx.rule("R7", "a spelling is accepted as a variable only after every character of its name passed the shared character class (or the name is empty / the text is exactly the sigils)")
    r7(ctx)


CHAR_SEQ = re.compile(r"^&?(mut )?(alloc::vec::Vec<char>|\[char\]|core::str::iter::Chars<'_>|core::slice::iter::Iter<'_, char>)$")
BYTE_SEQ = re.compile(r"^&?(mut )?(str|alloc::string::String|alloc::vec::Vec<u8>|\[u8\]|alloc::borrow::Cow<'_, str>|core::str::iter::Bytes<'_>)$")


def _len_unit(f, c):
    """unit of a length-producing call: 'chars' | 'bytes' | None"""
    if c.name not in ("len", "count", "chars_count") or not c.args or c.args[0][0] == "k":
        return None
    ty = f.locals[c.args[0][1][0]]
    if CHAR_SEQ.match(ty):
        return "chars"
    if BYTE_SEQ.match(ty):
        return "bytes"
    return None


def r5(ctx):
    prog = ctx.prog
    f = ctx.anchor("R5", r"^ast_grep_config::transform::transformation::Substring::<ast_grep_core::meta_var::MetaVariable>::compute$")
    rc = ctx.anchor("R5", r"^ast_grep_config::transform::transformation::resolve_char$")
    if not f or not rc:
        return
    calls = [c for c in f.calls if prog.call_targets(c) == [rc.id]]
    ctx.floor("R5", "resolve_char calls in Substring::compute", len(calls), 2)
    for n, c in enumerate(calls):
        for ai, what in ((1, "default"), (2, "len")):
            a = c.args[ai]
            if a[0] == "k":
                ctx.ob("R5", "resolve_char#%d/%s" % (n, what), True, "constant %s" % a[1].get("v"), where=f.loc(c.line), nontrivial=False)
                continue
            units = {}
            for o in f.trace_operand(a):
                if o.kind == "call":
                    units[o.ref.best] = _len_unit(f, o.ref)
                elif o.kind == "const":
                    units["const"] = "chars"
                else:
                    units[describe_origin(f, o)] = None
            ok = bool(units) and all(u == "chars" for u in units.values())
            ctx.ob("R5", "resolve_char#%d/%s is a character count" % (n, what), ok,
                   "%s: %s" % (what, units) if ok else
                   "the %s handed to resolve_char is not a character count (%s): negative indices resolve as len + c, so with a byte length every text with a multi-byte "
                   "character is sliced at the wrong place" % (what, {k: v or "unclassified" for k, v in units.items()}), where=f.loc(c.line))
    # where the resolved indices are applied
    sinks = []
    for c in f.calls:
        if c.name in ("index", "get", "skip", "take", "nth", "split_at", "get_unchecked") and len(c.args) >= 2 and c.args[1][0] != "k":
            if any(o.kind == "call" and o.ref in calls for o in deep_roots(prog, f, c.args[1], TRANSPARENT | {"sub", "add"})) or \
               any(o.kind == "call" and o.ref in calls for op in _range_operands(f, c.args[1]) for o in f.trace_operand(op)):
                ty = f.locals[c.args[0][1][0]] if c.args[0][0] != "k" else "?"
                sinks.append((c, ty))
    ctx.ob("R5", "resolved indices are applied somewhere", bool(sinks), "%d slicing site(s)" % len(sinks), where=f.loc(), nontrivial=False)
    for c, ty in sinks:
        ok = bool(CHAR_SEQ.match(ty)) or "Chars<" in ty or "Skip<" in ty and "Chars" in ty
        ctx.ob("R5", "slice sink %s#%d on a character sequence" % (c.name, [x[0] for x in sinks].index(c)), ok,
               "indices from resolve_char index %s" % ty if ok else "character indices from resolve_char are applied to %s (byte offsets): wrong text or a char-boundary panic" % ty, where=f.loc(c.line))
    # resolve_char: the negative arm adds the same len it compares with
    adds = [s for bi in rc.live_blocks for s in rc.blocks[bi]["s"] if s[0] == "A" and s[2][0] in ("bin", "checked") and s[2][1] in ("Add", "AddWithOverflow")]
    ok = bool(adds)
    for s in adds:
        ops = [o for op in (s[2][2], s[2][3]) if op[0] != "k" for o in rc.trace_operand(op)]
        if not any(o.kind == "param" and o.ref == 3 for o in ops):
            ok = False
    ctx.ob("R5", "resolve_char negative index is len + c", ok, "%d addition(s), each with the len parameter as an operand" % len(adds), where=rc.loc())
    # …and what becomes the index is never negative: a signed value is cast to usize only where a dominating comparison established
    # `0 <= value` (or the value is the len/default parameter itself).  `(len + c) as usize` of a negative sum is a huge index; the bounds
    # test in Substring::compute then answers "" where Python's slice clamps to 0 (`'abc'[-5:]` is 'abc').
    from .c11 import _dominating_orders, _src_local

    def ekey(op, depth=0):
        if op[0] == "k":
            return ("k", str(op[1].get("v")))
        if op[1][1]:
            base = ekey([op[0], [op[1][0], []]], depth + 1)
            return ("proj", base, tuple(map(str, op[1][1])))
        l = _src_local(rc, op)
        if l is None or depth > 6:
            return ("?", str(op))
        ds = [d for d in rc.defs.get(l[1], []) if d[0] == "assign" and d[1] in rc.live_blocks]
        if len(ds) == 1 and not ds[0][4]:
            rv = ds[0][3]
            if rv[0] in ("bin", "checked") and str(rv[1]).startswith("Add"):
                return ("add",) + tuple(sorted([ekey(rv[2], depth + 1), ekey(rv[3], depth + 1)], key=str))
            if rv[0] == "use" and rv[1][0] != "k" and rv[1][1][1] == [".0|"] or (rv[0] == "use" and rv[1][0] != "k" and len(rv[1][1][1]) == 1 and str(rv[1][1][1][0]).startswith(".0")):
                return ekey([rv[1][0], [rv[1][1][0], []]], depth + 1)
        return l

    casts = [(bi, st) for bi in sorted(rc.live_blocks) for st in rc.blocks[bi]["s"] if st[0] == "A" and st[2][0] == "cast" and st[2][3] == "usize" and st[2][2][0] != "k" and
             rc.locals[st[2][2][1][0]] in ("i32", "i64", "isize", "i16", "i8")]
    ctx.floor("R5", "signed-to-usize casts in resolve_char", len(casts), 1)
    badc = []
    for bi, st in casts:
        k = ekey(st[2][2])
        if isinstance(k, tuple) and k[0] == "local" and k[1] <= rc.nargs and k[1] >= 2:
            continue        # the len / default parameter itself (a character count, see above)
        facts = _dominating_orders(rc, bi)
        if any(sm[0] == "k" and str(sm[1].get("v", "")).startswith("0_") and ekey(bg) == k for sm, bg, _ in facts):
            continue
        badc.append(rc.loc(st[3]))
    ctx.ob("R5", "resolve_char casts only non-negative values to an index", not badc,
           "%d cast(s), each of the len/default parameter or of a value a dominating comparison found >= 0" % len(casts) if not badc else
           "a signed value is cast to usize without a dominating `>= 0` test (%s): a negative index beyond the start wraps to a huge one and selects nothing, "
           "where Python slice semantics clamp it to 0" % badc[:3], where=rc.loc())


def _range_operands(f, op):
    out = []
    if op[0] == "k":
        return out
    for o in f.trace_operand(op):
        if o.kind == "agg" and "Range" in (o.ref[2][1].get("adt") or ""):
            out += [x for x in o.ref[2][2] if x[0] != "k"]
    return out


def r6(ctx):
    """create_template cuts the template into literal fragments and variable slots.  Every literal fragment (and the tail) is a slice
    `tmpl[L..]`/`tmpl[L..x]`; whatever lies between two consecutive values of L and is not a consumed variable is lost.  So L may only be
    assigned (after its initialisation) where split_first_meta_var returned Some — never on the path that skips a sigil that is no
    variable.  This is the structural part of "lower-case names and lone sigils stay literal text"; what split_first_meta_var accepts
    stays value level."""
    from ..query import option_arms
    from .c11 import _src_local
    prog = ctx.prog
    f0 = ctx.anchor("R6", r"^ast_grep_core::replacer::template::create_template$")
    if not f0:
        return
    f = prog.inlined(f0, keep=("split_first_meta_var",))
    split = [c for c in f.calls if c.name == "split_first_meta_var" and c.bb in f.live_blocks]
    ctx.ob("R6", "create_template/recogniser call", len(split) == 1, "%d call(s) of split_first_meta_var" % len(split), where=f0.loc())
    if len(split) != 1:
        return
    arms = option_arms(f, split[0])
    if not arms or not arms["some"] or not arms["none"]:
        ctx.ob("R6", "create_template/branch on the recogniser", False, "the result of split_first_meta_var is not branched on in create_template", where=f0.loc())
        return
    # literal slices: str index calls on the template (param 1) whose result is turned into an owned String
    starts = {}
    n_slices = 0
    for c in f.calls:
        if c.name != "index" or c.bb not in f.live_blocks or len(c.args) != 2 or "for str" not in c.best:
            continue
        if not any(o.kind == "param" and o.ref == 1 for o in deep_roots(prog, f, c.args[0], TRANSPARENT)):
            continue
        owned = [c2 for c2 in f.calls if c2.name in ("to_string", "to_owned", "from", "into") and c2.args and
                 any(o.kind == "call" and o.ref is c for o in f.trace_operand(c2.args[0]))]
        if not owned:
            continue   # a slice that is only searched (`tmpl[cursor..].find`) or handed to the recogniser
        for o in f.trace_operand(c.args[1]):
            if o.kind == "agg" and "ops::range::Range" in str(o.ref[2][1].get("adt", "")) and "start" in o.ref[2][1].get("fields", []):
                n_slices += 1
                op = o.ref[2][2][o.ref[2][1]["fields"].index("start")]
                l = _src_local(f, op)
                if l:
                    starts.setdefault(l[1], []).append(c)
    ctx.floor("R6", "literal slices of the template", n_slices, 2)
    some_blocks = set()
    for sb in arms["some"]:
        some_blocks |= set(f.reachable_from(sb, stop=arms["none"]))
    none_only = set()
    for nb in arms["none"]:
        none_only |= set(f.reachable_from(nb, stop=[split[0].bb]))
    none_only -= some_blocks
    for l in sorted(starts):
        bad = []
        for d in f.defs.get(l, []):
            if d[0] == "assign" and d[1] in none_only and d[1] in f.live_blocks:
                rv = d[3]
                if rv[0] == "use" and rv[1][0] == "k":
                    continue
                bad.append(f.loc(f.blocks[d[1]]["s"][d[2]][3]))
        ctx.ob("R6", "create_template/literal start `%s` advances only with a consumed variable" % f.local_name(l), not bad,
               "every assignment lies on the path where split_first_meta_var returned Some" if not bad else
               "the position literal text is cut from is advanced where split_first_meta_var returned None (%s): the text up to and including a `$` that is no variable "
               "(`$ `, `$lower`, `${`) is dropped from fixes and messages" % bad[:2], where=f0.loc())


def r6b(ctx):
    """fix templates are written with the language's meta_var_char (`$`) and are never pre-processed, unlike patterns (expando char):
    every construction of a template scans for meta_var_char()."""
    prog = ctx.prog
    sites = prog.who_calls(r"^ast_grep_core::replacer::template::create_template$")
    ctx.floor("R6", "create_template call sites", len(sites), 3)
    for c in sites:
        roots = deep_roots(prog, c.fn, c.args[1], TRANSPARENT)
        names = sorted({o.ref.name if o.kind == "call" else o.kind for o in roots})
        ok = names == ["meta_var_char"]
        ctx.ob("R6", "%s scans the template for meta_var_char" % c.fn.id, ok, "sigil = lang.meta_var_char()" if ok else
               "the template is scanned for %s instead of meta_var_char(): in the languages whose expando differs from `$` a string template no longer recognises `$A` (and turns `_A`/`µA` into variables)" % names,
               where=c.fn.loc(c.line))


def r7(ctx):
    """extract_meta_var decides which pattern tokens are holes.  'lower-case names, digit-first names and lone sigils are never treated
    as holes' has a structural part: no `Some(variable)` is returned on a path on which the name was not run through
    `chars().all(is_valid_meta_var_char)` — the only exemptions being a name known to be empty and the exact comparison of the whole
    token with the sigil string.  What the character class accepts stays value level (R4 ties both recognisers to the same one)."""
    from ..query import bool_arms
    prog = ctx.prog
    f0 = ctx.anchor("R7", r"^ast_grep_core::meta_var::extract_meta_var$")
    if not f0:
        return
    f = prog.inlined(f0)
    somes = [bi for bi in sorted(f.live_blocks) for st in f.blocks[bi]["s"]
             if st[0] == "A" and st[1][0] == 0 and not st[1][1] and st[2][0] == "agg" and st[2][1].get("variant") == "Some"]
    ctx.floor("R7", "accepting returns of extract_meta_var", len(somes), 3)
    ok_arms = []
    for c in f.calls:
        if c.bb not in f.live_blocks:
            continue
        good = None
        if c.name == "all" and "is_valid_meta_var_char" in repr(c.args):
            good = "true"
        elif c.name == "all" and any("is_valid_meta_var_char" in repr([cc.best for cc in g.calls]) for g in prog.closures_of(f) if (closure_consumer_of(prog, g) is c)):
            good = "true"
        elif c.name == "is_empty" and "str" in c.best:
            good = "true"
        elif c.name in ("eq", "ne") and c.args and any(o.kind == "param" and o.ref == 1 for a in c.args[:2] for o in deep_roots(prog, f, a, TRANSPARENT)):
            good = "true" if c.name == "eq" else "false"
        if good:
            ba = bool_arms(f, c)
            if ba:
                ok_arms.append(ba[good])
    bad = [b for b in somes if not any(f.dominates(a, b) or a == b for a in ok_arms)]
    ctx.ob("R7", "extract_meta_var/every accepted spelling had its name validated", bool(ok_arms) and not bad,
           "%d accepting return(s), each dominated by a successful all(is_valid_meta_var_char) (or an empty name / the bare sigil string)" % len(somes) if ok_arms and not bad else
           "a variable is returned on a path that did not validate the name's characters (%s): tokens like `$$$_rest` or `$$$_x` become holes although lower-case names must stay literal text"
           % [f.loc(f.blocks[b]["s"][0][3]) if f.blocks[b]["s"] else b for b in bad][:3], where=f0.loc())


def closure_consumer_of(prog, g):
    from ..query import closure_consumer
    cons = closure_consumer(prog, g)
    return cons[1] if cons else None


def arm_outcomes(prog, f, start, named_param, n_val, k_val, limit=300):
    """outcomes ('accept'/'reject'/'?') of executing f from block `start` when every read of a bool reached through parameter
    `named_param` has value n_val and `is_named()` returns k_val: constant propagation over bools (Not, Eq, Ne, BitAnd, BitOr, BitXor),
    known switches followed, unknown switches explored on both sides"""
    out = set()
    work = [(start, ())]
    seen = set()
    steps = 0
    T = {"true": True, "false": False}
    S = {True: "true", False: "false"}
    while work and steps < limit:
        steps += 1
        b, st = work.pop()
        if (b, st) in seen:
            continue
        seen.add((b, st))
        env = dict(st)
        done = False
        for s_ in f.blocks[b]["s"]:
            if s_[0] != "A":
                continue
            dest, rv = s_[1], s_[2]
            if dest[0] == 0 and not dest[1] and rv[0] == "agg" and rv[1].get("variant") in ("None", "Some"):
                out.add("reject" if rv[1]["variant"] == "None" else "accept")
                done = True
                break
            if dest[1]:
                continue
            l = dest[0]
            v = None
            def val(op):
                if op[0] == "k":
                    return op[1].get("v") if op[1].get("ty") == "bool" else None
                if not op[1][1] and op[1][0] in env:
                    return env[op[1][0]]
                if f.locals[op[1][0]] in ("bool", "&bool") or op[1][1]:
                    if any(o.kind == "param" and o.ref == named_param and o.proj for o in f.trace_operand(op)):
                        return S[n_val]
                return None
            if rv[0] == "use":
                v = val(rv[1])
            elif rv[0] == "un" and rv[1] == "Not":
                x = val(rv[2])
                v = S[not T[x]] if x in T else None
            elif rv[0] == "bin" and rv[1] in ("Eq", "Ne", "BitAnd", "BitOr", "BitXor"):
                x, y = val(rv[2]), val(rv[3])
                if x in T and y in T:
                    a, c = T[x], T[y]
                    v = S[{"Eq": a == c, "Ne": a != c, "BitAnd": a and c, "BitOr": a or c, "BitXor": a != c}[rv[1]]]
            if v is None:
                env.pop(l, None)
            else:
                env[l] = v
        if done:
            continue
        t = f.blocks[b]["t"]
        if t[0] == "ret":
            out.add("?")
            continue
        succs = [x for x in f.succ[b] if not f.blocks[x].get("c")]
        if t[0] == "call":
            c = f.call_at(b)
            if c is not None:
                if c.name == "is_named" and c.dest and not c.dest[1]:
                    env[c.dest[0]] = S[k_val]
                elif c.name in ("then_some", "then") and c.args and c.args[0][0] != "k" and env.get(c.args[0][1][0]) in T and c.dest and c.dest[0] == 0:
                    out.add("accept" if T[env[c.args[0][1][0]]] else "reject")
                    continue
                elif c.name in ("insert", "insert_multi"):
                    out.add("accept")      # accepted as far as the kind of node is concerned (the binding itself may still conflict)
                    continue
                elif c.dest and not c.dest[1]:
                    env.pop(c.dest[0], None)
        elif t[0] == "switch" and t[1][0] != "k" and not t[1][1][1] and env.get(t[1][1][0]) in T:
            si = f.switch_info(b)
            if si and "true" in si["arms"]:
                succs = [si["arms"][env[t[1][1][0]]]]
        for s2 in succs:
            work.append((s2, tuple(sorted(env.items()))))
    return out


def r8(ctx):
    prog = ctx.prog
    f0 = ctx.anchor("R8", r"^ast_grep_core::match_tree::match_leaf_meta_var$")
    if not f0:
        return
    f = f0    # MetaVarEnv::insert stays a call: reaching it means "this kind of node is accepted" (the binding may still conflict)
    sws = self_switches(f, r"meta_var::MetaVariable", param=1)
    ctx.ob("R8", "match_leaf_meta_var/dispatch on the variable's class", bool(sws), "%d switch(es) over MetaVariable" % len(sws), where=f0.loc())
    if not sws:
        return
    bi, si = sws[0]
    tables = {}
    for v in ("Capture", "Dropped"):
        if v not in si["arms"]:
            ctx.ob("R8", "match_leaf_meta_var/%s arm" % v, False, "no arm for MetaVariable::%s" % v, where=f0.loc())
            continue
        tab = {}
        for n_val in (True, False):
            for k_val in (True, False):
                tab[(n_val, k_val)] = frozenset(arm_outcomes(prog, f, si["arms"][v], 1, n_val, k_val))
        tables[v] = tab
        want = {(True, True): {"accept"}, (True, False): {"reject"}, (False, True): {"accept"}, (False, False): {"accept"}}
        bad = {k: sorted(tab[k]) for k in want if set(tab[k]) != want[k]}
        ctx.ob("R8", "match_leaf_meta_var/%s accepts every node unless it is named-only and the node is unnamed" % v, not bad,
               "(named-only, node named) -> accept/reject over the four cases: TT accept, TF reject, FT accept, FF accept" if not bad else
               "the %s arm decides differently in the cases (named-only variable, candidate is named) = %s: e.g. `$$_` must stand for ANY node like `$$A`, and `$_` for named nodes only like `$A`"
               % (v, bad), where=f0.loc())
    if len(tables) == 2:
        same = tables["Capture"] == tables["Dropped"]
        ctx.ob("R8", "match_leaf_meta_var/Dropped and Capture agree on which nodes they stand for", same,
               "identical truth tables" if same else "the non-capturing hole and the capture of the same sigil count accept different nodes", where=f0.loc())


def arm_bool_value(f, start, region, n_val, limit=60, x_val=None):
    """value ('true'/'false'/None) of every bool local assigned while running straight through `region` from block `start`, when a bool
    read through a MetaVariable::Capture/Dropped payload has the value n_val"""
    T = {"true": True, "false": False}
    S = {True: "true", False: "false"}
    env = {}
    b = start
    steps = 0
    while b in region and steps < limit:
        steps += 1
        for s_ in f.blocks[b]["s"]:
            if s_[0] != "A" or s_[1][1]:
                continue
            l, rv = s_[1][0], s_[2]
            def val(op):
                if op[0] == "k":
                    return op[1].get("v") if op[1].get("ty") == "bool" else None
                if not op[1][1] and op[1][0] in env:
                    return env[op[1][0]]
                for o in f.trace_operand(op):
                    if any(("Capture" in str(p_) or "Dropped" in str(p_)) for p_ in o.proj):
                        return S[n_val]
                if x_val is not None and not op[1][1] and f.locals[op[1][0]] == "bool":
                    return S[x_val]       # a flag computed outside the arm (e.g. `loose`): the same opaque value in both arms
                return None
            v = None
            if rv[0] == "use":
                v = val(rv[1])
            elif rv[0] == "un" and rv[1] == "Not":
                x = val(rv[2])
                v = S[not T[x]] if x in T else None
            elif rv[0] == "bin" and rv[1] in ("Eq", "Ne", "BitAnd", "BitOr", "BitXor"):
                x, y = val(rv[2]), val(rv[3])
                if x in T and y in T:
                    a, c = T[x], T[y]
                    v = S[{"Eq": a == c, "Ne": a != c, "BitAnd": a and c, "BitOr": a or c, "BitXor": a != c}[rv[1]]]
            if f.locals[l] == "bool":
                env[l] = v
        t = f.blocks[b]["t"]
        nxt = [x for x in f.succ[b] if not f.blocks[x].get("c")]
        if t[0] == "call":
            c = f.call_at(b)
            if c is not None and c.dest and not c.dest[1] and f.locals[c.dest[0]] == "bool":
                if c.name == "not" and (c.callee.get("trait") or "").endswith("ops::bit::Not") and c.args:
                    x = None
                    a = c.args[0]
                    if a[0] == "k":
                        x = a[1].get("v") if a[1].get("ty") == "bool" else None
                    elif not a[1][1] and a[1][0] in env:
                        x = env[a[1][0]]
                    elif any(("Capture" in str(p_) or "Dropped" in str(p_)) for o in f.trace_operand(a) for p_ in o.proj):
                        x = S[n_val]
                    env[c.dest[0]] = S[not T[x]] if x in T else None
                else:
                    env[c.dest[0]] = None
        if t[0] == "switch" and t[1][0] != "k" and not t[1][1][1]:
            sv = env.get(t[1][1][0])
            if sv not in T and x_val is not None and f.locals[t[1][1][0]] == "bool" and t[1][1][0] not in env:
                sv = S[x_val]
            if sv in T:
                si = f.switch_info(b)
                if si and "true" in si["arms"]:
                    nxt = [si["arms"][sv]]
                    region = set(region) | {nxt[0]}
        if len(nxt) != 1:
            break
        b = nxt[0]
    return env


def r9(ctx):
    """`$_` is `$A` without the binding and `$$_` is `$$A` without the binding — in every place where the engine asks whether a variable
    is named-only.  For each function of the matching engine that dispatches on MetaVariable and treats Capture depending on its flag,
    the Dropped arm must compute the same boolean from its flag (evaluated for both flag values)."""
    prog = ctx.prog
    n = 0
    for f in sorted(prog.find_fns(r"^ast_grep_core::match_tree::"), key=lambda f: f.id):
        if f.id.endswith("match_leaf_meta_var"):
            continue       # R8 evaluates it together with the candidate's namedness
        for bi, si in [(b, f.switch_info(b)) for b in sorted(f.live_blocks)]:
            if not si or not si.get("enum") or not si["enum"].endswith("meta_var::MetaVariable") or "Capture" not in si["arms"] or "Dropped" not in si["arms"]:
                continue
            arms = arm_blocks(f, si)
            tabs = {}
            cases = [(a, b) for a in (True, False) for b in (True, False)]
            for v in ("Capture", "Dropped"):
                tabs[v] = {}
                for n_val, x_val in cases:
                    env = arm_bool_value(f, si["arms"][v], arms.get(v, set()) | {si["arms"][v]}, n_val, x_val=x_val)
                    tabs[v][(n_val, x_val)] = env
            common = set.intersection(*[set(tabs[v][c]) for v in tabs for c in cases])
            if not common:
                continue
            dep = [l for l in common if len({tabs[v][c].get(l) for v in tabs for c in cases}) > 1]
            n += 1
            bad = [l for l in common if any(tabs["Capture"][c].get(l) != tabs["Dropped"][c].get(l) for c in cases)]
            ctx.ob("R9", "%s/switch#%d: Dropped treated like Capture" % (f.id, sum(1 for b2 in sorted(f.live_blocks) if b2 < bi and (f.switch_info(b2) or {}).get("enum", "") and str(f.switch_info(b2).get("enum")).endswith("meta_var::MetaVariable"))),
                   not bad,
                   "both arms give `%s` the same value for named-only = true and false%s" % (", ".join(f.local_name(l) for l in sorted(common)), "" if dep else " (independent of the flag)") if not bad else
                   "the Dropped arm and the Capture arm give `%s` different values for the same named-only flag (Capture: %s, Dropped: %s): `$_`/`$$_` no longer behave like `$A`/`$$A` without the binding"
                   % (", ".join(f.local_name(l) for l in bad), {k: {f.local_name(l): v.get(l) for l in bad} for k, v in tabs["Capture"].items()}, {k: {f.local_name(l): v.get(l) for l in bad} for k, v in tabs["Dropped"].items()}),
                   where=f.loc())
    ctx.floor("R9", "MetaVariable dispatches in the matching engine comparing Capture and Dropped", n, 1)   # should_skip_goal (two on the reviewed tree; a merged match has one)
