"""C20 — meta-variable syntax is uniform across languages: impl-table uniformity rules over all Language impls."""
import re
from ..query import deep_roots, ultimate_roots, describe_origin, field_path, TRANSPARENT, self_switches, arm_blocks, calls_in, receiver_roots, proj_variants

LANG = "ast_grep_core::language::Language"
SYNTAX_METHODS = ("meta_var_char", "expando_char", "pre_process_pattern", "extract_meta_var")

EXPLANATION = (
    "Decided (from the compiler's impl tables and MIR, for all 23 built-in languages and every wrapper): R1 every language ends in "
    "the one recogniser: the trait default extract_meta_var calls core's extract_meta_var with the language's own expando_char, and "
    "every impl either inherits it or forwards it to a wrapped language; wrapper impls (SupportLang, SgLang, DynamicLang, NapiLang) "
    "forward each of meta_var_char / expando_char / pre_process_pattern / extract_meta_var that a wrapped language really "
    "overrides, per enum variant. R2 a built-in language overrides expando_char iff it overrides pre_process_pattern, the latter "
    "resolving to the shared language::pre_process_pattern(self.expando_char(), query); the expando is a constant different from "
    "`$`; no built-in language overrides meta_var_char (templates scan for `$` everywhere). R3 the language table is exhaustive: "
    "SupportLang::all_langs() has as many entries as SupportLang has variants, and the dispatch of each syntax method has an arm "
    "for every variant calling that variant's own language struct. R4 template-side and pattern-side recognisers share one "
    "character class (C12-R5)."
)
NOT_DECIDED = (
    "The small notations: An+B index arithmetic, substring slice semantics, and the bounded-exhaustive string clauses are value "
    "level (their crash behaviour is audited under C11); that each grammar tokenises the expando character as an identifier character."
)
TRUSTED = ["compiler impl tables and MIR", "tree-sitter grammars accept the chosen expando characters inside identifiers"]


def impl_of(prog, self_ty):
    for i in prog.impls_of(LANG):
        if i["self"] == self_ty:
            return i
    return None


def pure_forward(prog, impl, m):
    """(is_forward, receiver self types) for impl's method m"""
    fn = prog.impl_method(impl, m)
    if fn is None:
        return False, []
    recv = []
    for c in calls_in(prog, fn, fn.live_blocks):
        if c.callee.get("trait") == LANG and c.name == m and c.args:
            st = (c.callee.get("self") or "?").lstrip("&")
            derived = any(o.kind == "param" and o.ref == 1 for ff, o in ultimate_roots(prog, c.fn, c.args[0], TRANSPARENT | {"inner", "deref"}))
            # enum dispatch to unit structs (`match self { S::Rust => Rust.m(..) }`): the receiver is a constant of another type
            if derived or st != impl["self"]:
                recv.append(st)
    return bool(recv), recv


def really_overrides(prog, self_ty, m, depth=0):
    impl = impl_of(prog, self_ty.lstrip("&"))
    if impl is None:
        return False
    if m in impl.get("inherited", []):
        return False
    fw, recv = pure_forward(prog, impl, m)
    if not fw or depth > 4:
        return True
    return any(really_overrides(prog, r, m, depth + 1) for r in recv)


def run(ctx):
    prog = ctx.prog
    ctx.rule("R1", "one recogniser: default extract_meta_var uses the language's expando; wrappers forward every syntax method a wrapped language really overrides")
    ctx.rule("R2", "built-in languages: expando_char overridden <=> pre_process_pattern overridden and resolving to the shared routine with the language's own expando; meta_var_char never overridden")
    ctx.rule("R3", "language table exhaustive: all_langs length == number of SupportLang variants; per-variant dispatch of the syntax methods")
    ctx.rule("R4", "one character class for pattern-side and template-side recognisers")
    impls = prog.impls_of(LANG)
    ctx.floor("R1", "Language impls", len(impls), 27)
    # default extract_meta_var
    d = ctx.anchor("R1", r"^ast_grep_core::language::Language::extract_meta_var$")
    if d:
        em = [c for c in d.calls if c.best == "ast_grep_core::meta_var::extract_meta_var"]
        ok = False
        if em:
            roots = deep_roots(prog, d, em[0].args[1])
            ok = any(o.kind == "call" and o.ref.name == "expando_char" for o in roots)
        ctx.ob("R1", "default extract_meta_var", ok, "Language::extract_meta_var = meta_var::extract_meta_var(source, self.expando_char())", where=d.loc())
    builtins = []
    wrappers = []
    for impl in impls:
        st = impl["self"]
        if st.startswith("ast_grep_language::") and st != "ast_grep_language::SupportLang":
            builtins.append(impl)
        elif st.startswith("tree_sitter"):
            continue
        else:
            wrappers.append(impl)
    ctx.floor("R2", "built-in language structs", len(builtins), 23)
    # ---- R1 wrappers ----------------------------------------------------------------------------
    for impl in wrappers:
        st = impl["self"]
        for m in SYNTAX_METHODS:
            # which wrapped types does this wrapper forward ANY method to
            wrapped = set()
            for m2 in [x["name"] for x in impl["items"]]:
                fw, recv = pure_forward(prog, impl, m2)
                wrapped |= set(recv)
            wrapped = {w.lstrip("&") for w in wrapped if w and w != "?"}
            if not wrapped:
                continue
            need = sorted(w for w in wrapped if really_overrides(prog, w, m))
            inherits = m in impl.get("inherited", [])
            if inherits:
                ctx.ob("R1", "%s/%s" % (st, m), not need, "inherits the default `%s`; wrapped languages that really override it: %s" % (m, need or "none"), where=None)
            else:
                fw, recv = pure_forward(prog, impl, m)
                if st == "ast_grep_dynamic::DynamicLang" or (st.endswith("NapiLang") and not fw):
                    # takes the characters from its own registration data (user configuration), not from a wrapped language
                    ctx.ob("R1", "%s/%s" % (st, m), True, "defined from the wrapper's own registration data", nontrivial=False)
                    continue
                ctx.ob("R1", "%s/%s" % (st, m), fw, ("forwards `%s` to %s" % (m, sorted(set(recv)))) if fw else "overrides `%s` without forwarding to the wrapped language" % m,
                       where=prog.impl_method(impl, m).loc() if prog.impl_method(impl, m) else None)
    # ---- R2 -------------------------------------------------------------------------------------
    for impl in builtins:
        st = impl["self"]
        inh = set(impl.get("inherited", []))
        exp_over = "expando_char" not in inh
        pre_over = "pre_process_pattern" not in inh
        mv_over = "meta_var_char" not in inh
        emv_over = "extract_meta_var" not in inh
        detail = "expando_char %s, pre_process_pattern %s" % ("overridden" if exp_over else "inherited ($)", "overridden" if pre_over else "inherited (identity)")
        ok = exp_over == pre_over and not mv_over and not emv_over
        if ok and exp_over:
            pp = prog.impl_method(impl, "pre_process_pattern")
            cs = [c for c in pp.calls if c.best == "ast_grep_language::pre_process_pattern"]
            shared = False
            if cs:
                roots = deep_roots(prog, pp, cs[0].args[0])
                shared = any(o.kind == "call" and o.ref.name == "expando_char" and any(x.kind == "param" and x.ref == 1 for x in pp.trace_operand(o.ref.args[0])) for o in roots)
            ec = prog.impl_method(impl, "expando_char")
            const = None
            for bi in ec.live_blocks:
                for s in ec.blocks[bi]["s"]:
                    if s[0] == "A" and s[1][0] == 0 and s[2][0] == "use" and s[2][1][0] == "k":
                        const = s[2][1][1].get("v")
            ok = shared and const is not None and const != "'$'"
            detail += "; pre_process_pattern -> language::pre_process_pattern(self.expando_char(), ..): %s; expando = %s" % (shared, const)
        if not ok and exp_over != pre_over:
            detail += " — a language that changes its expando without rewriting `$` in patterns (or the reverse) can never recognise `$A`"
        if mv_over:
            detail += " — meta_var_char overridden: fix templates would look for another sigil than `$`"
        ctx.ob("R2", st, ok, detail, where=None)
    # ---- R3 -------------------------------------------------------------------------------------
    adt = prog.adts.get("ast_grep_language::SupportLang")
    al = ctx.anchor("R3", r"^ast_grep_language::SupportLang::all_langs$")
    if adt and al:
        nvar = len(adt["variants"])
        m = None
        for t in al.locals:
            mm = re.search(r"\[ast_grep_language::SupportLang; (\d+)\]", t)
            if mm:
                m = int(mm.group(1))
        ctx.ob("R3", "all_langs covers every variant", m == nvar, "all_langs() is an array of %s entries; SupportLang has %d variants" % (m, nvar), where=al.loc())
        ctx.floor("R3", "SupportLang variants", nvar, 23)
        simpl = impl_of(prog, "ast_grep_language::SupportLang")
        if simpl:
            for meth in ("expando_char", "pre_process_pattern", "extract_meta_var", "meta_var_char"):
                fn = prog.impl_method(simpl, meth)
                if fn is None:
                    ctx.ob("R3", "SupportLang::%s" % meth, False, "not overridden by SupportLang although languages override it")
                    continue
                sws = self_switches(fn, r"SupportLang")
                if not sws:
                    ctx.ob("R3", "SupportLang::%s/switch" % meth, False, "no match over self", where=fn.loc())
                    continue
                bi, si = sws[0]
                arms = arm_blocks(fn, si)
                bad = []
                for v in [x["name"] for x in adt["variants"]]:
                    calls = [c for c in fn.calls if c.bb in arms.get(v, set()) and c.name == meth]
                    want = "ast_grep_language::%s" % v if v != "Html" else "ast_grep_language::html::Html"
                    if not any((c.callee.get("self") or "").lstrip("&") == want for c in calls):
                        bad.append(v)
                ctx.ob("R3", "SupportLang::%s dispatch" % meth, not bad, "each of the %d variants calls its own language struct's %s" % (nvar, meth) if not bad else "variants dispatching to another language (or none): %s" % bad, where=fn.loc())
    # ---- R4 -------------------------------------------------------------------------------------
    from . import c12
    from ..core import Ctx
    sub = Ctx("C12", ctx.tier, prog)
    c12.r5(sub)
    for o in sub.obligations:
        ctx.ob("R4", o["key"].split(":", 1)[1], o["ok"], o["detail"], where=o["where"])
