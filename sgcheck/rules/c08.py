"""C08 — one rule, one fix: every front end derives (range, text) from the rule's Fixer through
the same two Replacer methods; no wrapper silently falls back to the default range."""
import re
from ..query import instantiations, type_params, mentions, ultimate_roots, describe_origin, same_object, field_path

REPLACER = "ast_grep_core::replacer::Replacer"
MATCHER = "ast_grep_core::matcher::Matcher"
MAKE_EDIT = "ast_grep_core::matcher::node_match::NodeMatch::<'_, D>::make_edit"
REPLACE_BY = "ast_grep_core::matcher::node_match::NodeMatch::<'_, D>::replace_by"
FIXER_HEAD = "ast_grep_config::fixer::Fixer"

EXPLANATION = (
    "Decided (structural, for every rule/source because it is a statement about all paths and all "
    "instantiations in the type-checked program): R1 every impl of Replacer (and every transparent "
    "pointer impl of Matcher) that forwards a required method to a wrapped value also forwards every "
    "defaulted method the wrapped value may override; R2 in every instantiation chain reaching "
    "NodeMatch::make_edit / Replacer::get_replaced_range whose replacer type contains Fixer, the range "
    "method resolves to Fixer's override and never to the trait default; R3 no instantiation of "
    "NodeMatch::replace_by (which hard-codes the matched node's own range) receives a Fixer, and at every "
    "front-end call of make_edit/Diff::generate/AstGrep::replace the matcher and the fixer come from the "
    "same rule object; R4 cli::print::Diff is constructed only by Diff::generate; R5 LSP code actions "
    "take their edit range from the edit computed by make_edit."
)
NOT_DECIDED = (
    "That two calls of the same function on the same inputs return the same value (determinism: C13); "
    "the arithmetic inside Fixer::get_replaced_range/expand_start/expand_end (value level: C06)."
)
TRUSTED = [
    "nightly rustc MIR construction and Instance::try_resolve",
    "generic instantiation chains are followed through recorded call sites to depth 6",
    "dependencies (tower-lsp, serde) behave as documented",
]


def impl_head(ty):
    t = ty
    while t.startswith("&"):
        t = t[1:].lstrip()
        if t.startswith("mut "):
            t = t[4:]
        if t.startswith("'"):
            t = t.split(" ", 1)[1] if " " in t else t
    return t.split("<", 1)[0]


def strip_refs(ty):
    n = 0
    t = ty.strip()
    while t.startswith("&"):
        n += 1
        t = t[1:].lstrip()
        if t.startswith("'"):
            t = t.split(" ", 1)[1] if " " in t else t
        if t.startswith("mut "):
            t = t[4:]
    return n, t


def forwards(prog, impl, trait):
    """for each method defined by the impl: list of (call, receiver self type) that call the same
    trait method on a value derived from self"""
    res = {}
    for it in impl["items"]:
        fn = prog.fns.get(it["id"])
        if fn is None:
            continue
        fw = []
        for c in fn.calls:
            if c.callee.get("trait") == trait and c.name == it["name"] and c.args:
                origins = fn.trace_operand(c.args[0])
                if any(o.kind == "param" and o.ref == 1 for o in origins):
                    fw.append((c, c.callee.get("self")))
        res[it["name"]] = (fn, fw)
    return res


def impl_params(impl):
    # type parameters of an impl are those single identifiers that appear in self type and are not paths
    return set(re.findall(r"(?<![:\w])([A-Z]\w*)(?![\w:])", impl["self"]))


def run(ctx):
    prog = ctx.prog
    ctx.rule("R1", "a wrapper impl (forwards a trait method to a value derived from self) forwards every defaulted method the wrapped type may override")
    ctx.rule("R2", "every instantiation of make_edit/get_replaced_range whose replacer contains Fixer resolves the range method to Fixer's override, never the trait default")
    ctx.rule("R3", "replace_by (node's own range) is never instantiated with a Fixer; matcher and fixer passed to make_edit come from the same rule object")
    ctx.rule("R4", "cli::print::Diff is constructed only in Diff::generate (single source of CLI edits)")
    ctx.rule("R5", "LSP text edits take their range from the Edit returned by make_edit, not from the diagnostic range")
    ctx.rule("R6", "the text an accepted fix is spliced into is the document text the fix's range was computed against (not a node's text)")
    ctx.rule("R7", "the replacement text a front end carries is the inserted_text of make_edit's Edit, converted only by identity conversions")
    r6(ctx)
    r7(ctx)
    r7b(ctx)

    # ---------------- R1 ---------------------------------------------------------------------
    n_inst = 0
    observations = []
    for trait in (REPLACER, MATCHER):
        tdef = prog.traits.get(trait)
        if tdef is None:
            ctx.ob("R1", "trait/%s" % trait, False, "trait %s not found in facts" % trait, nontrivial=False)
            continue
        defaulted = [m["name"] for m in tdef["methods"] if m["default"]]
        for impl in prog.impls_of(trait):
            fw = forwards(prog, impl, trait)
            fwd_methods = {m: v for m, v in fw.items() if v[1]}
            self_ty = impl["self"]
            transparent = bool(re.fullmatch(r"&(mut )?[A-Z]\w*|(alloc::boxed::Box|alloc::sync::Arc|alloc::rc::Rc)<[A-Z]\w*>", self_ty))
            in_scope = trait == REPLACER or transparent
            if not fwd_methods:
                if trait == REPLACER:
                    n_inst += 1
                    ctx.ob("R1", "%s for %s" % (short_trait(trait), self_ty), True,
                           "not a wrapper (no method forwards to a value derived from self); default range is its own", nontrivial=False)
                continue
            if in_scope and not [m2 for m2 in impl.get("inherited", []) if m2 in defaulted]:
                n_inst += 1
                ctx.ob("R1", "%s for %s" % (short_trait(trait), self_ty), True,
                       "wrapper of %s; overrides every defaulted method itself" % sorted({st or "?" for v in fwd_methods.values() for _, st in v[1]}),
                       where=next(iter(fwd_methods.values()))[0].loc())
            # receiver types of the forwards
            recv = set()
            for m, (fn, calls) in fwd_methods.items():
                for c, st in calls:
                    recv.add(st)
            params = impl_params(impl)
            for m2 in impl.get("inherited", []):
                if m2 not in defaulted:
                    continue
                # may the wrapped type override m2 ?
                may = []
                for r in recv:
                    n, base = strip_refs(r or "")
                    if base in params or base.startswith("dyn ") or base.startswith("impl "):
                        may.append("%s is a type parameter: any implementor may override %s" % (base, m2))
                        continue
                    for i2 in prog.impls_of(trait):
                        if impl_head(i2["self"]) == impl_head(base) and m2 not in i2.get("inherited", []) and any(x["name"] == m2 for x in i2["items"]):
                            may.append("%s overrides %s" % (i2["self"], m2))
                key = "%s for %s/%s" % (short_trait(trait), self_ty, m2)
                fn0 = next(iter(fwd_methods.values()))[0]
                if in_scope:
                    n_inst += 1
                    ctx.ob("R1", key, not may,
                           ("wrapper forwards %s but inherits the default `%s`; %s" % (sorted(fwd_methods), m2, "; ".join(may))) if may
                           else "wrapper inherits `%s` but no wrapped type overrides it" % m2,
                           where=fn0.loc(), facts={"receivers": sorted(x or "?" for x in recv)})
                elif may:
                    observations.append("%s: forwards %s, inherits default %s (%s)" % (key, sorted(fwd_methods), m2, "; ".join(may)))
            # every overridden defaulted method must forward to the same receiver as the required one
            if transparent:
                for m, (fn, calls) in fw.items():
                    if m in defaulted:
                        n_inst += 1
                        ctx.ob("R1", "%s for %s/%s forwards" % (short_trait(trait), self_ty, m), bool(calls),
                               "override of `%s` %s" % (m, "calls the same method on the wrapped value" if calls else "does NOT call the wrapped value's method"),
                               where=fn.loc())
    ctx.floor("R1", "impl instances", n_inst, 8)
    for o in observations:
        ctx.note("observation (non-transparent combinator, outside R1): " + o)

    # ---------------- R2 ---------------------------------------------------------------------
    fixer_impl = [i for i in prog.impls_of(REPLACER) if impl_head(i["self"]) == FIXER_HEAD]
    ok_fixer = len(fixer_impl) == 1 and any(x["name"] == "get_replaced_range" for x in fixer_impl[0]["items"])
    ctx.ob("R2", "Fixer overrides get_replaced_range", ok_fixer,
           "impl Replacer for Fixer %s get_replaced_range" % ("overrides" if ok_fixer else "does not override"), nontrivial=False)
    ref_impl = [i for i in prog.impls_of(REPLACER) if i["self"].startswith("&")]
    insts = instantiations(prog, MAKE_EDIT)
    n2 = 0
    seen = set()
    for env, chain, closed in insts:
        r = env.get("R", "?")
        n, base = strip_refs(r)
        root = chain[0].fn.id if chain else MAKE_EDIT
        key = "make_edit<R=%s> via %s" % (r, root)
        if key in seen:
            continue
        seen.add(key)
        n2 += 1
        if FIXER_HEAD not in r:
            ctx.ob("R2", key, True, "replacer type does not contain Fixer; default range is the documented behaviour", where=chain[0].fn.loc(chain[0].line) if chain else None)
            continue
        # walk the reference layers
        bad = None
        if impl_head(base) != FIXER_HEAD:
            bad = "replacer type %s contains Fixer inside a wrapper the rule cannot see through" % r
        elif n > 0:
            if len(ref_impl) != 1:
                bad = "expected exactly one `impl Replacer for &T`"
            elif "get_replaced_range" in ref_impl[0].get("inherited", []):
                bad = "<%s as Replacer>::get_replaced_range resolves to the TRAIT DEFAULT: `impl Replacer for &T` does not forward it, so expandStart/expandEnd of the Fixer are ignored on this path" % r
        if not ok_fixer:
            bad = "Fixer does not override get_replaced_range"
        ctx.ob("R2", key, bad is None, bad or "range method resolves to Fixer::get_replaced_range through %d reference layer(s)" % n,
               where=" <- ".join("%s:%d" % (c.fn.id, c.line) for c in reversed(chain)))
    ctx.floor("R2", "make_edit instantiations", n2, 4)

    # ---------------- R3 ---------------------------------------------------------------------
    n3 = 0
    seen3 = set()
    for env, chain, closed in instantiations(prog, REPLACE_BY):
        r = env.get("R", "?")
        site = chain[-1].fn.id if chain else REPLACE_BY
        if (r, site) in seen3:
            continue
        seen3.add((r, site))
        n3 += 1
        ctx.ob("R3", "replace_by<R=%s> in %s" % (r, site), FIXER_HEAD not in r,
               "replace_by hard-codes the matched node's range; with a Fixer this drops expandStart/expandEnd and the matcher's trimmed length" if FIXER_HEAD in r
               else "replace_by is not given a Fixer",
               where=chain[-1].fn.loc(chain[-1].line) if chain else None)
    # provenance: matcher and fixer from the same rule
    pair_sites = []
    for c in prog.who_calls(r"NodeMatch::<'_, D>::make_edit$|print::Diff::<'n>::generate$|AstGrep::<D>::replace$"):
        if c.fn.id.startswith("ast_grep_core::"):
            continue  # library plumbing (Node::replace etc.): generic, covered by R2
        pair_sites.append(c)
    for c in pair_sites:
        n3 += 1
        margs = c.args[1], c.args[2]
        mroots = ultimate_roots(prog, c.fn, margs[0])
        froots = ultimate_roots(prog, c.fn, margs[1])
        key = "pair %s -> %s#%d" % (c.fn.id, c.name, sum(1 for x in pair_sites[:pair_sites.index(c)] if x.fn is c.fn))
        # fixer must come out of a field named fixer/rewrite of the same object the matcher comes from,
        # or both must be plain parameters of a function whose own callers are checked (Diff::generate callers)
        ok = False
        why = []
        for mr in mroots:
            for fr in froots:
                if same_object(mr, fr):
                    ok = True
        mdesc = [describe_origin(f, o) for f, o in mroots]
        fdesc = [describe_origin(f, o) for f, o in froots]
        if not ok:
            # accept: both are distinct parameters that are forwarded unchanged (checked at the callers)
            mp = [o for f, o in mroots if o.kind == "param"]
            fp = [o for f, o in froots if o.kind == "param"]
            if mp and fp and len(mp) == len(mroots) and len(fp) == len(froots):
                # parameters of the enclosing function: its callers are themselves instances
                rootfn = mroots[0][0]
                callers = prog.call_sites.get(rootfn.id, [])
                ok = True
                why.append("both forwarded from parameters of %s (%d caller sites checked separately)" % (rootfn.id, len(callers)))
                for cc in callers:
                    if cc not in pair_sites:
                        pair_sites.append(cc) if False else None
        ctx.ob("R3", key, ok, "matcher from {%s}; fixer from {%s}%s" % ("; ".join(mdesc), "; ".join(fdesc), (" — " + "; ".join(why)) if why else ("" if ok else " — NOT the same rule object")),
               where=c.fn.loc(c.line))
    ctx.floor("R3", "front-end sites", n3, 7)

    # ---------------- R4 ---------------------------------------------------------------------
    aggs = prog.aggregates_of(r"^ast_grep::print::Diff$")
    for f, bi, si, s in aggs:
        if f.impl_trait == "core::clone::Clone":
            continue  # derived Clone copies both fields from one existing Diff
        ctx.ob("R4", "Diff constructed in %s" % f.id, f.id == "ast_grep::print::Diff::<'n>::generate",
               "struct literal of cli::print::Diff", where=f.loc(s[3]))
    ctx.floor("R4", "Diff constructors", len(aggs), 1)

    # ---------------- R5 ---------------------------------------------------------------------
    # every construction of lsp TextEdit: the range argument must not come from a Diagnostic.range field
    sites = prog.who_calls(r"lsp_types::TextEdit::new$")
    for i, c in enumerate(sites):
        roots = ultimate_roots(prog, c.fn, c.args[0])
        from_diag = any("range" in field_path(o.proj) and ("Diagnostic" in (f.locals[o.ref] if o.kind in ("param", "local") else "") or True) and o.kind in ("param", "local", "call")
                        and diag_typed(f, o) for f, o in roots)
        # the diagnostic's own range is acceptable only as the fallback next to RewriteData.range (payloads without a range)
        from_data = any(any(p_.startswith(".range|") and "RewriteData" in p_ for p_ in o.proj) for f, o in roots)
        from_diag = from_diag and not from_data
        ctx.ob("R5", "TextEdit in %s#%d" % (c.fn.id, sum(1 for x in sites[:i] if x.fn is c.fn)), not from_diag,
               "TextEdit range comes from %s" % "; ".join(describe_origin(f, o) for f, o in roots) + (" — the diagnostic (match) range, not the fixer's replaced range" if from_diag else ""),
               where=c.fn.loc(c.line))
    ctx.floor("R5", "TextEdit sites", len(sites), 2)
    # positive side: the functions that build TextEdits read RewriteData.range, and RewriteData.range is computed from make_edit
    for top in sorted({c.fn.root or c.fn.id for c in sites}):
        fam = prog.family(prog.fns[top]) if top in prog.fns else []
        reads = any(".range|ast_grep_lsp::utils::RewriteData" in repr(b["s"]) + repr(b["t"]) for g in fam for b in g.blocks)
        ctx.ob("R5", "%s reads RewriteData.range" % top, reads, "the code action takes its range from the rewrite data carried by the diagnostic" if reads else "RewriteData.range is never read here: the edit range cannot be the fixer's", where=prog.fns[top].loc() if top in prog.fns else None)
    rd = prog.aggregates_of(r"^ast_grep_lsp::utils::RewriteData$")
    rd = [(f, s_) for f, bi, si, s_ in rd if f.impl_trait is None or "Deserialize" not in (f.impl_trait or "")]
    n_rd = 0
    for f, s_ in rd:
        if f.impl_trait:
            continue
        n_rd += 1
        ops = dict(zip(s_[2][1]["fields"], s_[2][2]))
        me = [c for c in f.calls if c.name == "make_edit"]
        roots = []
        def collect(op, depth=0):
            for o in f.trace_operand(op):
                if o.kind == "agg" and depth < 4:
                    for sub in o.ref[2][2]:
                        collect(sub, depth + 1)
                elif o.kind == "call" and depth < 6:
                    roots.append(o.ref)
                    for a in o.ref.args:
                        collect(a, depth + 1)
        collect(ops.get("range", ["k", {}]))
        ok = bool(me) and any(r is me[0] for r in roots)
        ctx.ob("R5", "RewriteData.range computed from make_edit in %s" % f.id, ok, "range = positions of the Edit returned by make_edit(rule.matcher, fixer)" if ok else "RewriteData.range is not derived from the Edit of make_edit", where=f.loc(s_[3]))
    ctx.floor("R5", "RewriteData constructors", n_rd, 1)


def diag_typed(f, o):
    if o.kind in ("param", "local"):
        return "Diagnostic" in f.locals[o.ref]
    if o.kind == "call":
        return "Diagnostic" in f.locals[o.ref.dest[0]]
    return False


def r7b(ctx):
    """downstream of the carriers: what --json prints as `replacement` is Diff.replacement, what the language server sends as the
    TextEdit's new text is RewriteData.fixed — as they are"""
    from ..query import identity_flow, field_path
    prog = ctx.prog
    n = 0
    # MatchJSON.replacement
    for f in prog.fns.values():
        if f.crate != "ast_grep" or f.is_closure and False:
            continue
        for bi in sorted(f.live_blocks):
            for st in f.blocks[bi]["s"]:
                if st[0] == "A" and st[1][1] and any(str(p_).startswith(".replacement|ast_grep::print::json_print::MatchJSON") for p_ in st[1][1]) and st[2][0] in ("agg", "use"):
                    ops = st[2][2] if st[2][0] == "agg" else [st[2][1]]
                    if st[2][0] == "agg" and st[2][1].get("variant") == "None":
                        continue
                    n += 1
                    terms, foreign = [], []
                    for op in ops:
                        t_, f_ = identity_flow(prog, f, op, lambda g, o: o.kind in ("param", "local") and "replacement" in field_path(o.proj) and "Diff" in " ".join(map(str, o.proj)))
                        terms += t_
                        foreign += f_
                    ok = bool(terms) and not foreign
                    ctx.ob("R7", "MatchJSON.replacement in %s" % f.id, ok, "= Diff.replacement" if ok else
                           "the `replacement` printed by --json is not Diff.replacement as it is (passes through %s)" % sorted(set(foreign)), where=f.loc(st[3]))
    # struct-literal form: `MatchJSON { replacement: Some(diff.replacement), ..Self::new(..) }`
    for f, bi, si, st in prog.aggregates_of(r"^ast_grep::print::json_print::MatchJSON$"):
        if f.impl_trait or "replacement" not in st[2][1]["fields"]:
            continue
        op = dict(zip(st[2][1]["fields"], st[2][2]))["replacement"]
        if op[0] == "k" or all(o.kind == "agg" and o.ref[2][1].get("variant") == "None" for o in f.trace_operand(op)):
            continue
        n += 1
        terms, foreign = identity_flow(prog, f, op, lambda g, o: o.kind in ("param", "local") and "replacement" in field_path(o.proj) and "Diff" in " ".join(map(str, o.proj)))
        ok = bool(terms) and not foreign
        ctx.ob("R7", "MatchJSON.replacement in %s" % f.id, ok, "= Diff.replacement" if ok else
               "the `replacement` printed by --json is not Diff.replacement as it is (passes through %s)" % sorted(set(foreign)), where=f.loc(st[3]))
    # MatchJSON.replacement_offsets = Diff.range (byte offsets, like byteOffset and like what -U applies)
    def roff_term(g, o):
        return o.kind in ("param", "local") and "range" in field_path(o.proj) and "Diff" in " ".join(map(str, o.proj))
    for f in prog.fns.values():
        if f.crate != "ast_grep":
            continue
        for bi in sorted(f.live_blocks):
            for st in f.blocks[bi]["s"]:
                if st[0] != "A" or st[2][0] not in ("agg", "use"):
                    continue
                opsl = None
                if st[1][1] and any(str(p_).startswith(".replacement_offsets|ast_grep::print::json_print::MatchJSON") for p_ in st[1][1]):
                    opsl = st[2][2] if st[2][0] == "agg" else [st[2][1]]
                    if st[2][0] == "agg" and st[2][1].get("variant") == "None":
                        continue
                elif st[2][0] == "agg" and st[2][1].get("adt") == "ast_grep::print::json_print::MatchJSON" and "replacement_offsets" in st[2][1].get("fields", []) and not f.impl_trait:
                    op = dict(zip(st[2][1]["fields"], st[2][2]))["replacement_offsets"]
                    if op[0] == "k" or all(o.kind == "agg" and o.ref[2][1].get("variant") == "None" for o in f.trace_operand(op)):
                        continue
                    opsl = [op]
                if opsl is None:
                    continue
                n += 1
                terms, foreign = [], []
                for op in opsl:
                    t_, f_ = identity_flow(prog, f, op, roff_term)
                    terms += t_
                    foreign += f_
                ok = bool(terms) and not foreign
                ctx.ob("R7", "MatchJSON.replacement_offsets in %s" % f.id, ok, "= Diff.range" if ok else
                       "the offsets printed by --json are not Diff.range as it is (computed through %s): the announced byte range differs from what -U, sg test, the library and the LSP use" % sorted(set(foreign)),
                       where=f.loc(st[3]))
    # lsp TextEdit new_text
    for c in prog.who_calls(r"lsp_types::TextEdit::new$"):
        f = c.fn
        n += 1
        def term(g, o):
            return "fixed" in field_path(o.proj) and "RewriteData" in " ".join(map(str, o.proj))
        terms, foreign = identity_flow(prog, f, c.args[1], term)
        # the value may have travelled through a tuple built from RewriteData.fixed in the same function family
        if not terms and foreign:
            fam_txt = "".join(repr(b["s"]) for g in prog.family(prog.fns.get(f.root) or f) for b in g.blocks)
            if ".fixed|ast_grep_lsp::utils::RewriteData" in fam_txt and all(x.startswith("parameter") or x in ("next", "into_iter", "iter", "pop", "remove") for x in foreign):
                terms, foreign = [True], []
        ok = bool(terms) and not foreign
        ctx.ob("R7", "TextEdit text in %s#%d" % (f.id, sum(1 for x in prog.who_calls(r"lsp_types::TextEdit::new$") if x.fn is f and x.bb < c.bb)), ok,
               "= RewriteData.fixed" if ok else "the quick-fix text is not RewriteData.fixed as it is (passes through %s)" % sorted(set(foreign)), where=f.loc(c.line))
    # …and the range of a TextEdit is the range the rewrite data carries (all edits of one WorkspaceEdit refer to the ORIGINAL document:
    # shifting later edits by the lines earlier ones add is a misreading of the protocol)
    for c in prog.who_calls(r"lsp_types::TextEdit::new$"):
        f = c.fn
        def rterm(g, o):
            return "range" in field_path(o.proj) and any(x in " ".join(map(str, o.proj)) for x in ("RewriteData", "Diagnostic"))
        from ..query import IDENTITY_CALLS
        terms, foreign = identity_flow(prog, f, c.args[0], rterm, ident=IDENTITY_CALLS | {"unwrap_or", "unwrap_or_else", "or", "or_else"})
        foreign = [x for x in foreign if not (x.startswith("parameter") or x in ("next", "into_iter", "iter", "pop", "remove"))]
        fam_txt = "".join(repr(b["s"]) for g in prog.family(prog.fns.get(f.root) or f) for b in g.blocks)
        carried = bool(terms) or ".range|ast_grep_lsp::utils::RewriteData" in fam_txt
        ok = carried and not foreign
        ctx.ob("R7", "TextEdit range in %s#%d" % (f.id, sum(1 for x in prog.who_calls(r"lsp_types::TextEdit::new$") if x.fn is f and x.bb < c.bb)), ok,
               "= the carried range as it is" if ok else "the edit's range is recomputed on the way (%s): fix-all proposes another range than quick-fix, the CLI and the library for the same match" % sorted(set(foreign)),
               where=f.loc(c.line))
    ctx.floor("R7", "downstream uses of the carried replacement text", n, 3)
    # the text itself is produced by ONE template mechanism for string-form and object-form fixes: both reach the template scanner with the
    # transformation names, and the scanner looks them up as a set (the C12 R4 obligations).  A form-specific preparation (sorted names for
    # one form only + a binary search) makes the two forms — and with a HashMap-ordered name list, two processes — expand the same fix
    # differently.
    from . import c12
    from ..core import Ctx
    sub12 = Ctx("C12", ctx.tier, prog)
    c12.r4(sub12)
    n12 = 0
    for o in sub12.obligations:
        if o["rule"] == "R4":
            n12 += 1
            ctx.ob("R7", "fix text/" + o["key"].split(":", 1)[1], o["ok"], o["detail"], where=o.get("where"), nontrivial=o.get("nontrivial", True))
    ctx.floor("R7", "template obligations shared with C12 R4", n12, 3)


def short_trait(t):
    return t.rsplit("::", 1)[-1]


def r6(ctx):
    from .c18 import frame_agreement, splice_purity
    frame_agreement(ctx, "R6")
    splice_purity(ctx, "R6")
    # every front end drops the same conflicting edits: all overlap filters of the workspace (CLI accept loop, LSP fix-all, library
    # replace_all, rewriters) put `start == previous end` on the non-overlapping side (C01 R9)
    from .c01 import r9 as overlap_boundary
    from ..core import Ctx
    sub = Ctx("C01", ctx.tier, ctx.prog)
    overlap_boundary(sub)
    for o in sub.obligations:
        ctx.ob("R6", o["key"].split(":", 1)[1], o["ok"], o["detail"], where=o["where"], nontrivial=o.get("nontrivial", True))
    # what --update-all writes for a file is ONE payload holding every edit of that file (the C18 obligations on how the scan result is
    # turned into payloads); a second payload for the same file overwrites edits that --json, the library and the LSP still propose
    from . import c18
    sub18 = ctx.prog.__dict__.get("_c18_sub")
    if sub18 is None:
        sub18 = Ctx("C18", ctx.tier, ctx.prog)
        c18.run(sub18)
        ctx.prog.__dict__["_c18_sub"] = sub18
    n18 = 0
    for o in sub18.obligations:
        k = o["key"].split(":", 1)[1]
        if k.startswith(("unused-suppression edits join", "diffs stay ordered", "match_rule_diff_on_file keeps")) or "not re-sorted on its way to the accept loop" in k:
            n18 += 1
            ctx.ob("R6", k, o["ok"], o["detail"], where=o["where"], nontrivial=o.get("nontrivial", True))
    ctx.floor("R6", "payload-construction obligations shared with C18", n18, 3)
    # the library's replace call and `sg test`'s `fixed` apply make_edit's Edit through Content::accept_edit: it splices exactly
    # position..position+deleted_length with inserted_text (the C10 R2 obligations) — an "optimised" splice applies another edit
    from . import c10
    sub10 = ctx.prog.__dict__.get("_c10_sub")
    if sub10 is None:
        sub10 = Ctx("C10", ctx.tier, ctx.prog)
        c10.run(sub10)
        ctx.prog.__dict__["_c10_sub"] = sub10
    n10 = 0
    for o in sub10.obligations:
        k = o["key"].split(":", 1)[1]
        if o["rule"] == "R2" and ("_byte" in k or "splice text" in k):
            n10 += 1
            ctx.ob("R6", "library edit/" + k, o["ok"], o["detail"], where=o.get("where"), nontrivial=o.get("nontrivial", True))
    ctx.floor("R6", "accept_edit obligations shared with C10 R2", n10, 4)


from ..query import TRANSPARENT
IDENTITY_TEXT = TRANSPARENT | {"from_utf8", "from_utf8_lossy", "from_utf8_unchecked", "into_boxed_str", "into_string", "as_bytes", "to_vec", "into_bytes"}


def r7(ctx):
    """CLI (`Diff.replacement`: --json, -U, interactive) and LSP (`RewriteData.fixed`: quick-fix, fix-all) each store the text of the
    proposed edit.  Both must store what make_edit produced: a front end that post-processes its copy (line endings, trimming, indentation)
    proposes a different edit than the library's replace() and the other front ends."""
    prog = ctx.prog
    sites = []
    for adt, field in ((r"^ast_grep::print::Diff$", "replacement"), (r"^ast_grep_lsp::utils::RewriteData$", "fixed")):
        for f, bi, si, st in prog.aggregates_of(adt):
            if f.impl_trait:
                continue
            sites.append((adt.strip("^$"), field, f, st))
    ctx.floor("R7", "front-end edit carriers", len(sites), 2)
    for adt, field, f0, st0 in sites:
        f = prog.inlined(f0)
        st = st0
        if f is not f0:
            cands = [s_ for b in f.blocks for s_ in b["s"] if s_[0] == "A" and s_[2][0] == "agg" and s_[2][1].get("adt") == st0[2][1].get("adt") and s_[2][1].get("fields") == st0[2][1].get("fields")]
            st = cands[0] if cands else st0
        ops = dict(zip(st[2][1]["fields"], st[2][2]))
        if field not in ops:
            ctx.ob("R7", "%s.%s in %s" % (adt, field, f0.id), False, "field %s not found in the struct literal" % field, where=f0.loc(st[3]))
            continue
        foreign, terminal = [], []
        seen = set()
        def walk(op, depth=0):
            if op[0] == "k" or depth > 12:
                return
            for o in f.trace_operand(op):
                k = (o.kind, o.ref if isinstance(o.ref, (int, str)) else id(o.ref))
                if k in seen:
                    continue
                seen.add(k)
                if o.kind == "call":
                    c = o.ref
                    if c.name == "make_edit":
                        terminal.append(c)
                    elif c.name in IDENTITY_TEXT and c.args:
                        walk(c.args[0], depth + 1)
                    else:
                        foreign.append(c.name)
                elif o.kind == "agg":
                    for sub in o.ref[2][2]:
                        walk(sub, depth + 1)
                elif o.kind == "param":
                    foreign.append("parameter %s" % f.local_name(o.ref))
        walk(ops[field])
        ok = bool(terminal) and not foreign
        ctx.ob("R7", "%s.%s in %s" % (adt, field, f0.id), ok,
               "%s = inserted_text of the Edit returned by make_edit (conversions only)" % field if ok else
               "%s is not make_edit's inserted_text unmodified: it passes through %s%s — this front end proposes a different replacement text than the library and the other front ends"
               % (field, sorted(set(foreign)) or "nothing", "" if terminal else " and never reaches make_edit"), where=f0.loc(st[3]))
