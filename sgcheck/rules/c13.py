"""C13 — independence from map order / hash seeds: hashed-iteration audit + ordering funnels."""
import json
import os
import re
from ..query import deep_roots, ultimate_roots, describe_origin, field_path, TRANSPARENT, closure_consumer, option_arms, calls_in

HERE = os.path.dirname(os.path.dirname(os.path.dirname(os.path.abspath(__file__))))
TABLE = os.path.join(HERE, "tables", "hash_order.json")

EXPLANATION = (
    "Decided: no observable result is computed by a path whose outcome depends on the iteration order of a HashMap/HashSet "
    "(the only per-process nondeterminism in this code base). R1: every call that starts iterating a hashed container in "
    "workspace code is followed through iterator adaptors to its sink and classified from the MIR: order-insensitive sinks "
    "(collect into a map/set, all/any/count/sum, loop bodies that only insert into sets/maps) are discharged automatically; "
    "every other site must carry a reviewed verdict (ERROR-CHOICE, TOPO, PRESENTATION, SORTED-LATER) whose recorded sink "
    "signature still equals the one computed now, else it is a violation. R2: the ordering funnels hold by dominance/"
    "provenance: utilities and transforms are registered from the topological order, rules are sorted before the kind index is "
    "built and before per-path selection is returned, unused suppressions are sorted on both branches, snapshot maps are "
    "serialised through an ordered map, injected documents are produced in key order. R3: derived Serialize impls that write "
    "hashed maps directly are listed (JSON object key order only)."
)
NOT_DECIDED = (
    "Determinism of dependencies (regex, tree-sitter, serde); file-system enumeration order of the `ignore` walker (findings "
    "are per file, so it affects emission order only); that two runs produce byte-identical output streams."
)
TRUSTED = ["reviewed table tables/hash_order.json", "MIR iterator-chain following limited to the adaptors listed in the checker (anything else is 'unclassified' and needs a row)"]

CRATES = ("ast_grep_core", "ast_grep_config", "ast_grep", "ast_grep_language", "ast_grep_dynamic", "ast_grep_lsp")
HASHTY = re.compile(r"std::collections::hash::(map::HashMap|set::HashSet)|dashmap::|hashbrown::")
START = re.compile(r"::(iter|iter_mut|keys|values|values_mut|into_iter|into_keys|into_values|drain)$")
ADAPTORS = {"map", "filter", "filter_map", "flat_map", "flatten", "cloned", "copied", "chain", "enumerate", "by_ref", "into_iter", "iter",
            "rev", "peekable", "skip", "take", "inspect", "map_while", "take_while", "skip_while", "zip", "fuse", "step_by"}
INSENSITIVE_TERMINALS = {"all", "any", "count", "sum", "product", "min", "max", "for_each_insert", "contains", "len", "is_empty"}
SENSITIVE_TERMINALS = {"find", "find_map", "position", "next", "last", "nth", "fold", "reduce", "try_fold", "min_by", "max_by", "min_by_key", "max_by_key", "for_each", "try_for_each", "unzip", "partition"}
ORDERED_TARGETS = re.compile(r"alloc::vec::Vec<|alloc::string::String|VecDeque|smallvec::SmallVec|alloc::boxed::Box<\[")
UNORDERED_TARGETS = re.compile(r"std::collections::hash::|alloc::collections::btree::|bit_set::BitSet|BTreeMap|BTreeSet|HashMap|HashSet")
SET_INSERTS = re.compile(r"(HashMap|HashSet|BTreeMap|BTreeSet|BitSet).*::(insert|entry|extend|remove|or_default|or_insert\w*|union_with)$|::contains(_key)?$")
SEQ_WRITES = re.compile(r"(alloc::vec::Vec|alloc::string::String|VecDeque|smallvec).*::(push|push_str|extend|insert|append|extend_from_slice|push_back|push_front)$|core::fmt::|std::io::.*write|::send$")


def starts(prog):
    out = []
    for f in sorted(prog.fns.values(), key=lambda f: f.id):
        if f.crate not in CRATES:
            continue
        for c in f.calls:
            if not START.search(c.best):
                continue
            a0 = c.args[0] if c.args else None
            a0ty = f.locals[a0[1][0]] if a0 and a0[0] != "k" else ""
            if a0 and a0[0] != "k" and a0[1][1]:
                a0ty = ""
            is_hash = bool(HASHTY.search(c.best)) or (bool(HASHTY.search(a0ty)) and "IntoIterator" in c.best)
            if not is_hash:
                continue
            # not an iterator over an iterator type (e.g. hash_map::Iter::into_iter)
            if re.search(r"hash::(map|set)::(Iter|Keys|Values|IntoIter|IntoKeys|IntoValues|Drain)", a0ty):
                continue
            out.append(c)
    return out


def users_of(f, call):
    """calls in f one of whose arguments is (directly, through moves/refs) the result of `call`"""
    out = []
    for c in f.calls:
        if c is call:
            continue
        for i, a in enumerate(c.args):
            if any(o.kind == "call" and o.ref is call and not [p for p in o.proj if p not in ("*", "&")] for o in f.trace_operand(a)):
                out.append((c, i))
                break
    return out


from ..query import loop_of  # noqa: E402  (moved to query.py)


def body_effects(prog, f, next_call):
    """effects of a `for` loop driven by next_call: returns (sig list, detail)"""
    body = loop_of(f, next_call.bb)
    arms = option_arms(f, next_call)
    normal_exit = set(arms["none"])
    sig = set()
    detail = []
    calls = calls_in(prog, f, body)
    for c in calls:
        if c is next_call:
            continue
        b = c.best
        if SET_INSERTS.search(b):
            sig.add("set-insert")
        elif SEQ_WRITES.search(b):
            sig.add("seq-write:" + c.name)
            detail.append("%s (L%d)" % (b, c.line))
        elif b in prog.fns or prog.call_targets(c):
            # workspace call: does it receive a &mut argument?
            muts = [i for i, a in enumerate(c.args) if a[0] != "k" and not a[1][1] and f is c.fn and f.locals[a[1][0]].startswith("&mut ")]
            if muts:
                sig.add("calls-mut:" + c.name)
                detail.append("%s(&mut ..) (L%d)" % (c.name, c.line))
    # early exits: edges leaving the loop other than the None arm of next()
    for b in body:
        for s in f.succ[b]:
            if s not in body and s not in normal_exit:
                # is this the normal exit reached through the None arm? (None arm target may be inside `body` complement only)
                sig.add("early-exit")
    if "early-exit" in sig:
        detail.append("loop can be left before the iterator is exhausted (return/break/?)")
    return sorted(sig), detail, body


def follow(prog, f, call, depth=0):
    """follow the iterator produced by `call` to its sink; returns (signature string, detail list)"""
    if depth > 12:
        return "unclassified:depth", []
    us = users_of(f, call)
    if not us:
        # returned or stored: look at function return
        if any(o.kind == "call" and o.ref is call for o in f.trace_local(0)):
            return "returned-iterator", ["the iterator itself is returned to the caller"]
        return "unclassified:unused", []
    sigs = []
    details = []
    for c, argi in us:
        name = c.name
        if name in ("drop", "drop_in_place", "size_hint"):
            continue
        if name == "next" and argi == 0:
            if f.in_loop(c.bb):
                sig, det, body = body_effects(prog, f, c)
                if not sig:
                    sigs.append("loop:pure")
                elif sig == ["set-insert"]:
                    sigs.append("loop:set-insert")
                else:
                    sigs.append("loop:" + "+".join(sig))
                details += det
            else:
                sigs.append("next-once")
            continue
        if name in ADAPTORS and (argi == 0 or name in ("chain", "zip")):
            s, d = follow(prog, f, c, depth + 1)
            sigs.append(s)
            details += d
            continue
        if name == "collect" or name == "from_iter":
            ty = f.locals[c.dest[0]]
            if UNORDERED_TARGETS.search(ty) and not ORDERED_TARGETS.match(ty):
                sigs.append("collect:unordered")
            elif ORDERED_TARGETS.search(ty):
                s2 = vec_fate(prog, f, c)
                sigs.append("collect:seq:" + s2)
                details.append("collected into %s" % ty[:60])
            else:
                sigs.append("collect:?" + ty[:30])
            continue
        if name == "extend" and argi == 1:
            ty = f.locals[c.args[0][1][0]] if c.args[0][0] != "k" else ""
            if UNORDERED_TARGETS.search(ty) and not ORDERED_TARGETS.search(ty.replace("&mut ", "")[:40]):
                sigs.append("extend:unordered")
            else:
                sigs.append("extend:seq")
                details.append("extends %s" % ty[:60])
            continue
        if name in INSENSITIVE_TERMINALS:
            sigs.append("fold:insensitive:" + name)
            continue
        if name in SENSITIVE_TERMINALS:
            sigs.append("terminal:" + name)
            details.append("%s (L%d)" % (c.best, c.line))
            continue
        # passed to a workspace function / closure capture etc.
        sigs.append("escapes:" + name)
        details.append("iterator passed to %s (L%d)" % (c.best, c.line))
    if not sigs:
        return "unclassified:nosink", details
    return "|".join(sorted(set(sigs))), details


def vec_fate(prog, f, collect_call):
    """what happens to a Vec collected from a hashed iterator: 'sorted' if a sort* call on it dominates every other use,
    'set-like' if only contains/len/is_empty/iter().any are applied, else 'ordered-use'"""
    us = users_of(f, collect_call)
    names = []
    sort_bb = None
    for c, i in us:
        n = c.name
        if n in ("deref", "deref_mut", "as_slice", "as_mut_slice", "as_ref", "borrow"):
            for c2, i2 in users_of(f, c):
                names.append((c2.name, c2))
            continue
        names.append((n, c))
    for n, c in names:
        if n.startswith("sort"):
            sort_bb = c.bb
    if sort_bb is not None and all(n.startswith("sort") or f.dominates(sort_bb, c.bb) for n, c in names):
        return "sorted"
    if names and all(n in ("contains", "len", "is_empty", "drop", "drop_in_place") for n, c in names):
        return "set-like"
    return "ordered-use(%s)" % ",".join(sorted({n for n, c in names}))[:80]


AUTO_OK = re.compile(r"^(collect:unordered|extend:unordered|fold:insensitive:\w+|loop:pure|loop:set-insert|collect:seq:sorted|collect:seq:set-like)(\|(collect:unordered|extend:unordered|fold:insensitive:\w+|loop:pure|loop:set-insert|collect:seq:sorted|collect:seq:set-like))*$")


def sig_class(sig):
    """coarse class of a sink signature: the reviewed verdicts are tied to the class, so that a behaviour-preserving rewrite
    (for-loop with `?`  <->  try_for_each, find_map <-> loop with early return) keeps its verdict"""
    out = set()
    for part in sig.split("|"):
        if part.startswith("loop:"):
            body = part[5:]
            if "seq-write" in body:
                out.add("sequence")
            elif "calls-mut" in body:
                out.add("stateful")
            elif "early-exit" in body:
                out.add("first-hit")
            else:
                out.add("set")
        elif part.startswith("terminal:"):
            n = part[9:]
            out.add("first-hit" if n in ("find", "find_map", "position", "try_for_each", "try_fold") else "stateful")
        elif part.startswith("collect:seq:ordered-use") or part == "extend:seq":
            out.add("sequence")
        elif part.startswith(("returned-iterator", "escapes:", "next-once")):
            out.add("escapes")
        elif part.startswith("unclassified") or part.startswith("collect:?"):
            out.add("unclassified")
        else:
            out.add("set")
    return "+".join(sorted(out))


def container_desc(prog, f, c):
    roots = ultimate_roots(prog, f, c.args[0], TRANSPARENT | {"deref"})
    ds = []
    for ff, o in roots:
        d = re.sub(r" \(L\d+\)", "", describe_origin(ff, o))
        d = re.sub(r"local _\d+", "local", d)
        ds.append(d)
    return " | ".join(sorted(set(ds)))[:120]


def load_table():
    if not os.path.exists(TABLE):
        return {}
    with open(TABLE) as fh:
        return json.load(fh)["sites"]


def enumerate_sites(prog):
    out = []
    seen = {}
    for c in starts(prog):
        f = c.fn
        sig, det = follow(prog, f, c)
        base = "%s | %s | %s" % (f.id, c.name, container_desc(prog, f, c))
        n = seen.get(base, 0)
        seen[base] = n + 1
        key = base + (" #%d" % n if n else "")
        out.append({"key": key, "call": c, "sig": sig, "detail": det})
    return out


def run(ctx):
    prog = ctx.prog
    ctx.rule("R1", "every hashed iteration has an order-insensitive sink or a reviewed verdict whose recorded sink signature still holds")
    ctx.rule("R2", "ordering funnels: toposort order drives registration; sorts dominate dispatch/selection/suppression output; snapshot maps ordered; injections in key order")
    ctx.rule("R3", "derived Serialize impls do not write hashed maps directly except listed presentation-only cases")
    table = load_table()
    sites = enumerate_sites(prog)
    ctx.floor("R1", "hashed iteration sites", len(sites), 35)
    used = set()
    for s in sites:
        c = s["call"]
        where = c.fn.loc(c.line)
        if AUTO_OK.match(s["sig"]):
            ctx.ob("R1", s["key"], True, "order-insensitive sink: %s" % s["sig"], where=where)
            continue
        row = table.get(s["key"])
        if row is None:
            # the iteration moved into an extracted helper / another function of the same file: adopt the reviewed row of the same
            # file, iteration method and sink class whose own site no longer exists (the sink class is re-checked below)
            live = {x["key"] for x in sites}
            parts = s["key"].split(" | ")
            for k2, r2_ in table.items():
                p2 = k2.split(" | ")
                same_file = r2_.get("file") == c.fn.file
                same_fn = p2[0].split("::{closure")[0].rsplit("::", 1)[-1] == parts[0].split("::{closure")[0].rsplit("::", 1)[-1] and p2[0].split("::")[0] == parts[0].split("::")[0]
                if k2 in live or k2 in used or not (same_file or same_fn) or len(p2) < 2 or len(parts) < 2 or p2[1] != parts[1]:
                    continue
                if sig_class(r2_["sig"]) == sig_class(s["sig"]):
                    row = r2_
                    used.add(k2)
                    ctx.note("hash-order row adopted after a move: %s <- %s" % (s["key"], k2))
                    break
        if row is None:
            ctx.ob("R1", s["key"], False, "iteration over a hashed container reaches an order-sensitive or unclassified sink (%s; %s) and has no reviewed verdict: the result may depend on the hash seed" % (s["sig"], "; ".join(s["detail"])[:200]), where=where, facts={"sig": s["sig"]})
            continue
        used.add(s["key"])
        def same_class(a_sig, b_sig):
            a, b = sig_class(a_sig), sig_class(b_sig)
            if a == b:
                return True
            # `for k in map.keys() { self.visit(k)? }`  <->  `map.keys().try_for_each(|k| self.visit(k))`: a stateful loop with an early
            # exit and a try_for_each/try_fold terminal are the same sink (every item handed to one stateful callee until the first error)
            both = {(a_sig, a), (b_sig, b)}
            return any("calls-mut" in x and "early-exit" in x for x, _ in both) and any(x.startswith("terminal:try_for") or x.startswith("terminal:try_fold") for x, _ in both)
        if not same_class(row["sig"], s["sig"]):
            ctx.ob("R1", s["key"], False, "sink class changed since review: reviewed `%s` (%s), now `%s` (%s) — the verdict %s no longer applies" % (row["sig"], sig_class(row["sig"]), s["sig"], sig_class(s["sig"]), row["verdict"]), where=where)
            continue
        if row["verdict"] == "FINDING":
            ctx.ob("R1", s["key"], False, "FINDING %s: %s" % (row.get("finding", ""), row["why"]), where=where)
            continue
        ok, msg = True, ""
        if "guard" in row:
            ok, msg = GUARDS[row["guard"]](ctx)
        ctx.ob("R1", s["key"], ok, "%s (%s): %s%s" % (row["verdict"], s["sig"], row["why"], (" [guard %s: %s]" % (row["guard"], msg)) if "guard" in row else ""), where=where)
    for k in table:
        if k not in used:
            ctx.note("hash_order.json row no longer matches a site: " + k)
    r2(ctx)
    r3(ctx)
    from .c12 import used_vars_unmodified
    used_vars_unmodified(ctx, "R2")
    from . import rulecoll
    rulecoll.rc4(ctx, "R2")     # moving a rule document to another rule file does not change which documents are loaded
    ctx.rule("R4", "transform entries that the dependency sort leaves unordered (hash order) cannot observe each other: what rewriters inherit is fixed before the first entry is applied")
    r4(ctx)


GUARDS = {}


def guard(name):
    def deco(fn):
        GUARDS[name] = fn
        return fn
    return deco


def sort_dominates(prog, f, target_pred, what_roots_pred):
    """a sort* call whose receiver satisfies what_roots_pred dominates every block satisfying target_pred"""
    sorts = [c for c in f.calls if c.name.startswith("sort") and what_roots_pred(deep_roots(prog, f, c.args[0], TRANSPARENT | {"deref_mut", "as_mut_slice", "deref"}))]
    targets = [b for b in f.live_blocks if target_pred(b)]
    if not sorts or not targets:
        return False, sorts
    return all(any(f.dominates(s.bb, t) for s in sorts) for t in targets), sorts


@guard("suppressions_sorted_later")
def g_suppr(ctx):
    ok, msg = r2_into_result(ctx.prog)
    return ok, msg


@guard("transform_names_used_as_set")
def g_names_set(ctx):
    """the Vec of transform names handed to TemplateFix::with_transform is only ever tested with `contains`"""
    prog = ctx.prog
    sf = prog.one_fn(r"^ast_grep_core::replacer::split_first_meta_var$")
    uses = []
    for c in sf.calls:
        for i, a in enumerate(c.args):
            if any(o.kind == "param" and o.ref == 3 for o in sf.trace_operand(a)):
                uses.append(c.name)
    # whatever consumes the names through an iterator is a membership / counting test too (`iter().any(..)`), never a positional one
    # (`iter().find(..)`, `first()`, `position(..)`: the result would depend on the HashMap order the Vec was collected in)
    for g in prog.family(sf):
        for c in g.calls:
            if c.bb not in g.live_blocks or not c.args or c.args[0][0] == "k" or c.name in ("contains", "iter", "into_iter", "any", "all", "count", "len", "is_empty", "as_ptr", "deref"):
                continue
            roots = deep_roots(prog, g, c.args[0], TRANSPARENT | {"iter", "into_iter", "deref", "as_ref", "copied", "cloned", "by_ref"})
            if g is sf and any(o.kind == "param" and o.ref == 3 and not [p_ for p_ in o.proj if p_ != "*" and not str(p_).startswith("()")] for o in roots):
                uses.append(c.name)
    ct = prog.one_fn(r"^ast_grep_core::replacer::template::create_template$")
    passes = [c for c in ct.calls for a in c.args if any(o.kind == "param" and o.ref == 3 for o in ct.trace_operand(a))]
    only_forward = all(c.name == "split_first_meta_var" for c in passes)
    ok = bool(uses) and all(u in ("contains", "iter", "as_ptr", "len") for u in uses) and only_forward
    return ok, "split_first_meta_var uses the names via %s; create_template only forwards them: %s" % (sorted(set(uses)), only_forward)


@guard("matched_variables_consumers")
def g_mv_consumers(ctx):
    prog = ctx.prog
    f = prog.one_fn(r"^ast_grep_core::meta_var::MetaVarEnv::<'tree, D>::get_matched_variables$")
    callers = {c.fn.id for c in prog.call_sites.get(f.id, [])}
    ok = callers <= {"ast_grep::print::json_print::from_env"} and bool(callers)
    if ok:
        g = prog.fns["ast_grep::print::json_print::from_env"]
        ins = [c for c in g.calls if c.name == "insert" and "HashMap" in c.best]
        seq = [c for c in g.calls if SEQ_WRITES.search(c.best) and "Vec" in c.best and c.name == "push"]
        ok = len(ins) >= 3
    return ok, "callers: %s; from_env files variables into maps" % sorted(callers)


def _agg_roots(prog, f, op, depth=0):
    """origins of an operand, looking into tuples/struct literals"""
    out = []
    if op[0] == "k" or depth > 5:
        return out
    for o in f.trace_operand(op):
        if o.kind == "agg":
            for sub in o.ref[2][2]:
                out += _agg_roots(prog, f, sub, depth + 1)
        else:
            out.append(o)
    return out


def r2_into_result(prog):
    f = prog.one_fn(r"^ast_grep_config::combined::ScanResultInner::<'t, D>::into_result$")
    # every use of self.unused_suppressions that reaches the result is followed by a sort on the receiving vector
    sorts = [c for c in f.calls if c.name.startswith("sort")]
    ext = [c for c in f.calls if c.name == "extend"]
    pushes = [c for c in f.calls if c.name == "push"]
    def on_suppr(c):
        return any(o.kind == "param" and "unused_suppressions" in field_path(o.proj) for o in deep_roots(prog, f, c.args[0], TRANSPARENT | {"deref_mut", "as_mut_slice", "as_mut"}))
    ok1 = any(f.dominates(e.bb, s.bb) for e in ext for s in sorts)
    # plain branch: the vector that is pushed as the unused-suppression group is itself sorted first (the nodes come out of a HashMap)
    sup_pushes = [p_ for p_ in pushes if len(p_.args) > 1 and any(o.kind == "param" and "unused_suppressions" in field_path(o.proj)
                                                                  for x in [p_.args[1]] for o in _agg_roots(prog, f, x))]
    ok2 = bool(sup_pushes) and all(any(on_suppr(s) and f.dominates(s.bb, p_.bb) for s in sorts) for p_ in sup_pushes)
    return ok1 and ok2 and len(sorts) >= 2, "unused suppressions are sorted by start offset on the separate_fix branch (after extend) and on the plain branch (before push): %s/%s" % (ok1, ok2)


def r2(ctx):
    prog = ctx.prog
    from . import c11
    for g, key in (("ids_from_get_order", "utils registered in get_order order (with_utils, parse_global_utils)"), ("transform_keys_from_order", "Transform::deserialize builds its Vec from get_transform_order")):
        ok, msg = c11.check_guard(ctx, g)
        ctx.ob("R2", key, ok, msg)
    # the registration loops insert from the ordered ids, not from the map
    for pat, ins in ((r"deserialize_env::DeserializeEnv::<L>::with_utils$", "insert_local"), (r"deserialize_env::DeserializeEnv::<L>::parse_global_utils$", "insert")):
        f = ctx.anchor("R2", pat)
        if not f:
            continue
        go = [c for c in f.calls if c.name == "get_order"]
        inserts = [c for c in f.calls if c.name == ins and "referent_rule" in c.best]
        ok = False
        if go and inserts:
            T = (TRANSPARENT | {"next", "map_err", "into_iter"}) - {"get"}
            ok = all(any(o.kind == "call" and o.ref is go[0] for o in deep_roots(prog, f, c.args[1], T)) for c in inserts)
        ctx.ob("R2", "%s inserts ids taken from get_order" % f.name, ok, "the id passed to %s comes from the vector returned by TopologicalSort::get_order" % ins, where=f.loc())
    vd = ctx.anchor("R2", r"^ast_grep_config::rule::deserialize_env::visit_dependent_rule_ids$")
    if vd:
        from .c12 import visitor_examines_all_fields
        visitor_examines_all_fields(ctx, "R2", vd)
    # get_order: result is the sorter's `order` vector filled by visit (post-order)
    f = ctx.anchor("R2", r"deserialize_env::TopologicalSort::<'a, T>::visit$")
    if f:
        pushes = [c for c in f.calls if c.name == "push"]
        rec = [c for c in f.calls if c.name == "visit_dependency"]
        ok = bool(pushes) and bool(rec) and all(f.dominates(r.bb, p.bb) for r in rec for p in pushes)
        ctx.ob("R2", "TopologicalSort::visit is post-order", ok, "a key is pushed to `order` only after its dependencies were visited (visit_dependency dominates push)", where=f.loc())
    # get_order hands out the sorter's post-order vector (not the key set in some other order)
    f = ctx.anchor("R2", r"deserialize_env::TopologicalSort::<'a, T>::get_order$")
    if f:
        ok = False
        detail = "no `Ok(..)` return found"
        for bi in f.live_blocks:
            for st in f.blocks[bi]["s"]:
                if st[0] == "A" and st[1][0] == 0 and st[2][0] == "agg" and st[2][1].get("variant") == "Ok":
                    roots = deep_roots(prog, f, st[2][2][0], TRANSPARENT)
                    new = [c for c in f.calls if c.name == "new" and "TopologicalSort" in c.best]
                    ok = any((o.kind == "call" and o.ref in new and field_path(o.proj) == ["order"]) for o in roots)
                    detail = "get_order returns %s" % "; ".join(describe_origin(f, o) for o in roots)
        ctx.ob("R2", "get_order returns the topological order", ok, detail if ok else detail + " — not the `order` vector filled by the post-order visit: dependants can be registered/applied before their dependencies", where=f.loc())
    # CombinedScan::new sorts before indexing
    f = ctx.anchor("R2", r"^ast_grep_config::combined::CombinedScan::<'r, L>::new$")
    if f:
        en = [c for c in f.calls if c.name in ("enumerate", "iter")]
        sorts = [c for c in f.calls if c.name.startswith("sort") and any(o.kind == "param" and o.ref == 1 for o in deep_roots(prog, f, c.args[0], TRANSPARENT | {"deref_mut", "as_mut_slice"}))]
        ok = bool(sorts) and bool(en) and all(any(f.dominates(s.bb, e.bb) for s in sorts) for e in en)
        key_ok = False
        for s in sorts:
            for g in prog.family(f)[1:]:
                # the key closure (or named key function) reads rule.fix (is_some) and rule.id
                fields = set()
                for b in g.blocks:
                    for st in b["s"]:
                        if st[0] == "A":
                            for p in (st[1][1] + (st[2][2][1] if st[2][0] in ("ref",) else [])):
                                if p.startswith("."):
                                    fields.add(p[1:].split("|")[0])
                if "id" in fields:
                    key_ok = True
        ctx.ob("R2", "CombinedScan::new sorts rules before building the kind index", ok and key_ok, "sort_unstable_by_key on the rule vector dominates the indexing loop; key reads rule.id: %s" % key_ok, where=f.loc())
    f = ctx.anchor("R2", r"^ast_grep_config::rule_collection::RuleCollection::<L>::for_path$")
    if f:
        sorts = [c for c in f.calls if c.name.startswith("sort")]
        gr = [c for c in f.calls if c.name == "get_rule_from_lang"]
        ok = False
        if sorts and gr:
            ok = any(o.kind == "call" and o.ref is gr[0] for o in deep_roots(prog, f, sorts[0].args[0], TRANSPARENT | {"deref_mut", "as_mut_slice"}))
            # the vector returned on the success path is the sorted one
            ok = ok and any(o.kind == "call" and o.ref is gr[0] for o in f.trace_local(0))
        ctx.ob("R2", "RuleCollection::for_path sorts by id", ok, "the vector from get_rule_from_lang is sorted before it is returned", where=f.loc())
    ok, msg = r2_into_result(prog)
    ctx.ob("R2", "ScanResultInner::into_result sorts unused suppressions", ok, msg)
    # snapshots
    om = ctx.anchor("R2", r"^ast_grep::verify::snapshot::ordered_map$")
    if om:
        om = prog.inlined(om)  # with a private helper that holds the body spliced in
        col = [c for c in om.calls if c.name == "collect"]
        ok = bool(col) and any("BTreeMap" in om.locals[c.dest[0]] for c in col)
        ctx.ob("R2", "ordered_map collects into a BTreeMap", ok, "snapshot maps are serialised through a BTreeMap", where=om.loc())
    ser = prog.find_fns(r"impl serde::ser::Serialize for ast_grep::verify::snapshot::TestSnapshots>::serialize$")
    if len(ser) != 1:
        ctx.ob("R2", "TestSnapshots Serialize anchor", False, "found %d" % len(ser))
    else:
        direct = [c for c in ser[0].calls if c.name == "serialize_field" and any("HashMap" in t for t in c.callee.get("targs", []))]
        ctx.ob("R2", "TestSnapshots.snapshots is not serialised directly", not direct, "the derived Serialize impl hands the map to a serialize_with wrapper, not to serialize_field::<HashMap>", where=ser[0].loc())
    # injections in key order (F15)
    gi = ctx.anchor("R2", r"^ast_grep_core::node::Root::<D>::get_injections$")
    if gi:
        sorts = [c for c in gi.calls if c.name.startswith("sort")]
        ei = [c for c in gi.calls if c.name == "extract_injections"]
        ok = False
        if sorts and ei:
            ok = any(o.kind == "call" and o.ref is ei[0] for o in deep_roots(prog, gi, sorts[0].args[0], TRANSPARENT | {"deref_mut", "as_mut_slice", "collect", "into_iter"}))
        ctx.ob("R2", "Root::get_injections orders injected documents by language key", ok,
               "the (language, ranges) entries of extract_injections are sorted before roots are built" if ok else
               "the HashMap returned by extract_injections is turned into Vec<Root> in hash order; consumers select by position/first match", where=gi.loc())
    # lang_globs registration order (F13)
    ri = ctx.anchor("R2", r"^ast_grep::lang::lang_globs::register_impl$")
    if ri:
        sorts = [c for c in ri.calls if c.name.startswith("sort")]
        ok = bool(sorts) and any(o.kind == "param" and o.ref == 1 for o in deep_roots(prog, ri, sorts[0].args[0], TRANSPARENT | {"deref_mut", "as_mut_slice", "collect", "into_iter"}))
        ctx.ob("R2", "lang_globs::register_impl registers languages in key order", ok,
               "languageGlobs entries are sorted before the first-match table is filled" if ok else
               "the first-match table LANG_GLOBS is filled in hash order of the languageGlobs map: which language wins for a path matched by two languages depends on the hash seed", where=ri.loc())


def r3(ctx):
    prog = ctx.prog
    n = 0
    for f in sorted(prog.fns.values(), key=lambda f: f.id):
        if f.crate not in CRATES or f.impl_trait != "serde::ser::Serialize":
            continue
        for c in f.calls:
            if c.name in ("serialize_field", "serialize_entry", "serialize_element") and any(HASHTY.search(t) and not t.startswith("core::option::Option<std::collections::hash::map::HashMap<alloc::string::String, ast_grep_config::") for t in c.callee.get("targs", [])):
                n += 1
                ty = [t for t in c.callee.get("targs", []) if HASHTY.search(t)][0]
                ctx.ob("R3", "%s serialises %s" % (f.impl_self, ty[:70]), f.impl_self in R3_ALLOWED,
                       "derived Serialize writes a hashed map directly: %s" % (R3_ALLOWED.get(f.impl_self, "object key order of the output depends on the hash seed (not reviewed)")), where=f.loc(c.line), nontrivial=False)
    ctx.extra["serialized_hash_maps"] = n


R3_ALLOWED = {
    "ast_grep::print::json_print::MetaVariables<'a>": "PRESENTATION: JSON object key order of metaVariables; JSON objects are unordered",
    "ast_grep::print::json_print::RuleMatchJSON<'_, '_>": "PRESENTATION: `labels`/`metadata` map key order only",
    "ast_grep::config::AstGrepConfig": "config echo (languageGlobs/customLanguages); not a finding output",
    "ast_grep_config::rule_core::SerializableRuleCore": "schema/echo of rule source; not produced by scans",
    "ast_grep_config::rule_config::SerializableRuleConfig<L>": "schema/echo of rule source; not produced by scans",
    "ast_grep_config::rule_config::Metadata": "PRESENTATION: user metadata echoed in JSON; object key order only",
}


BORROW_ONLY = {"deref", "deref_mut", "as_ref", "borrow", "as_deref", "as_mut", "borrow_mut"}


def r4(ctx):
    """Transform::apply_transform_in walks `self.transforms` in the order TopologicalSort produced: entries related through `source`
    are ordered, independent entries come in HashMap order.  That is harmless only while an entry can read nothing another independent
    entry wrote.  The one channel besides `source` is the environment rewriters inherit (Ctx.enclosing_env): it must be loop-invariant —
    a parameter or a value built before the loop — never a snapshot taken inside the loop (it would contain 'whatever was transformed
    before this key', i.e. the hash order)."""
    prog = ctx.prog
    f0 = ctx.anchor("R4", r"^ast_grep_config::transform::Transform::apply_transform_in$")
    if not f0:
        return
    f = prog.inlined(f0)
    aggs = [(bi, st) for bi in sorted(f.live_blocks) for st in f.blocks[bi]["s"]
            if st[0] == "A" and st[2][0] == "agg" and st[2][1].get("adt") == "ast_grep_config::transform::Ctx"]
    ctx.floor("R4", "transform Ctx constructions", len(aggs), 1)
    loops = f.loop_blocks()
    ctx.ob("R4", "apply_transform_in/applies entries in a loop", True, "loop over self.transforms found" if loops else
           "no loop in the body (entries applied through an iterator consumer): a Ctx built in the body is built once, before any entry is applied", where=f0.loc(), nontrivial=False)
    for n, (bi, st) in enumerate(aggs):
        ops = dict(zip(st[2][1]["fields"], st[2][2]))
        if "enclosing_env" not in ops:
            ctx.ob("R4", "Ctx#%d/enclosing_env" % n, False, "Ctx has no field enclosing_env any more: re-review how rewriters inherit variables", where=f0.loc(st[3]))
            continue
        variant = []
        seen = set()
        def walk(op, depth=0):
            if op[0] == "k" or depth > 16:
                return
            for o in f.trace_operand(op):
                k = (o.kind, o.ref if isinstance(o.ref, (int, str)) else id(o.ref))
                if k in seen:
                    continue
                seen.add(k)
                if o.kind == "call":
                    c = o.ref
                    if c.bb not in loops:
                        continue
                    if c.name in BORROW_ONLY and c.args:
                        walk(c.args[0], depth + 1)
                    else:
                        variant.append("%s() at %s" % (c.name, f.loc(c.line)))
                elif o.kind == "agg":
                    if o.ref[0] in loops:
                        for sub in o.ref[2][2]:
                            walk(sub, depth + 1)
                elif o.kind == "param":
                    if f.locals[o.ref].startswith("&mut") and not [p for p in o.proj if p not in ("*", "&")]:
                        variant.append("the &mut parameter %s, which the loop writes" % f.local_name(o.ref))
        walk(ops["enclosing_env"])
        ctx.ob("R4", "Ctx#%d/enclosing_env is loop-invariant" % n, not variant,
               "the environment rewriters inherit is a parameter / built before the loop" if not variant else
               "the environment rewriters inherit is produced inside the loop over the transform entries (%s): it contains the entries applied so far, and the order of "
               "independent entries is the HashMap order of the `transform` map — fixes differ between runs" % "; ".join(variant[:3]), where=f0.loc(st[3]))
