"""C18 — --update-all writes exactly the announced edits: announce/apply share one datum; one whole-file payload per path."""
import re
from ..query import deep_roots, ultimate_roots, describe_origin, field_path, TRANSPARENT, bool_arms, calls_in, path_avoiding

EXPLANATION = (
    "Decided: R1 the JSON announcer and the applier take range and replacement from the same `Diff` value, which only "
    "Diff::generate constructs; apply_rewrite splices the payload's own old_source with the payload's own ranges; in the "
    "accept loop the overlap test dominates acceptance and the applied-changes counter is incremented exactly where a diff is "
    "accepted. R2 only the interactive printer writes user source files (other writers are scaffolding/snapshot code, listed), "
    "and — because a Diffs payload snapshots the whole file and rewrite_action overwrites the file from it — no producer may "
    "create such payloads inside a loop over the documents/match units of one path (two payloads for one path lose the first "
    "one's edits while both are counted). R3 the run that announces (--json) and the run that applies (-U) compute the same findings: "
    "code reachable from the per-file producers reads the output options only through OutputArgs::needs_interactive, whose result may "
    "only choose the diff route / CombinedScan::scan's separate_fix flag, and the rule vector selected for a file reaches "
    "CombinedScan::new without being filtered, truncated or reordered. R1 further: the splice base (Diffs.old_source) is the document text the "
    "ranges refer to, not a node's text; overlap filters use the half-open boundary (start < previous end); and scan.rs hands every match "
    "whose rule has a fixer on to the processor (no pre-filtering before the user accepted anything)."
)
NOT_DECIDED = "Byte-level equality of the written file with the spliced text; that files without accepted edits are untouched as bytes (follows from rewrite_action's early return, checked structurally only)."
TRUSTED = ["std::fs::write replaces the file content atomically enough for a single-threaded consumer", "nightly rustc MIR"]

DIFF = r"^ast_grep::print::Diff$"


def fields_read(prog, f, operand):
    out = set()
    for ff, o in ultimate_roots(prog, f, operand, TRANSPARENT | {"deref"}):
        fp = field_path(o.proj)
        ty = ""
        if o.kind in ("param", "local"):
            ty = ff.locals[o.ref]
        out.add((ty, tuple(fp)))
    return out


def run(ctx):
    prog = ctx.prog
    ctx.rule("R1", "announced == applied by construction: one Diff datum read by both; overlap test dominates acceptance; counter tied to acceptance")
    ctx.rule("R3", "announce mode and apply mode scan alike: producers read output options only via needs_interactive; selected rules reach CombinedScan::new unmodified")
    ctx.rule("R2", "one writer of user files; no whole-file Diffs payload is created per document/match unit of one path")
    # ---- R1 -------------------------------------------------------------------------------------
    aggs = [(f, s) for f, bi, si, s in prog.aggregates_of(DIFF) if f.impl_trait != "core::clone::Clone"]
    ctx.ob("R1", "Diff constructed only by Diff::generate", all(f.id == "ast_grep::print::Diff::<'n>::generate" for f, s in aggs) and bool(aggs),
           "constructors: %s" % sorted({f.id for f, s in aggs}))
    # applier
    idn = prog.find_fns(r"^ast_grep::print::interactive_print::InteractiveDiff::<D>::new$")
    if len(idn) != 1:
        ctx.ob("R1", "InteractiveDiff::new anchor", False, "found %d" % len(idn))
    else:
        f = idn[0]
        ag = [s for bi in f.live_blocks for s in f.blocks[bi]["s"] if s[0] == "A" and s[2][0] == "agg" and "InteractiveDiff" in s[2][1].get("adt", "")]
        ok = False
        detail = "no InteractiveDiff literal"
        if ag:
            ops = dict(zip(ag[0][2][1]["fields"], ag[0][2][2]))
            r = fields_read(prog, f, ops["range"])
            p = fields_read(prog, f, ops["replacement"])
            ok = any("Diff" in ty and fp[-1:] == ("range",) for ty, fp in r) and any("Diff" in ty and fp[-1:] == ("replacement",) for ty, fp in p)
            detail = "range <- %s ; replacement <- %s" % (sorted(r), sorted(p))
        ctx.ob("R1", "applier reads Diff.range / Diff.replacement", ok, detail, where=f.loc())
        # …and takes them as they are: what -U splices is the announced replacement at the announced range, not a trimmed / re-encoded
        # copy (a fix written as a YAML block scalar ends in a line break that --json announces)
        if ag:
            from ..query import identity_flow
            for fld in ("replacement", "range"):
                terms, foreign = identity_flow(prog, f, ops[fld], lambda g, o, fld=fld: o.kind in ("param", "local") and fld in field_path(o.proj) and "Diff" in " ".join(map(str, o.proj)))
                same = bool(terms) and not foreign
                # a moved value edited in place (`replacement.pop()`) keeps its provenance: no mutable borrow of a String / Range here
                muts = [st for bi in f.live_blocks for st in f.blocks[bi]["s"] if st[0] == "A" and st[2][0] == "ref" and st[2][1] != "shared" and
                        (("String" in f.locals[st[2][2][0]] and fld == "replacement") or ("Range<usize>" in f.locals[st[2][2][0]] and fld == "range"))]
                if muts:
                    same = False
                    foreign = list(foreign) + ["in-place mutation at %s" % f.loc(muts[0][3])]
                ctx.ob("R1", "applier takes Diff.%s as it is" % fld, same, "InteractiveDiff.%s = Diff.%s" % (fld, fld) if same else
                       "what -U/-i splice is not the announced Diff.%s as it is (passes through %s): the bytes written differ from the edit --json reports" % (fld, sorted(set(foreign)) or "another value"), where=f.loc())
    # announcers
    n_ann = 0
    for f in prog.find_fns(r"^ast_grep::print::json_print::(MatchJSON|RuleMatchJSON)::<.*>::diff$"):
        n_ann += 1
        reads = set()
        for b in f.blocks:
            for s in b["s"]:
                if s[0] == "A":
                    rv = s[2]
                    pls = []
                    if rv[0] == "use" and rv[1][0] != "k":
                        pls.append(rv[1][1])
                    elif rv[0] in ("ref", "ptr"):
                        pls.append(rv[2])
                    for pl in pls:
                        for p_ in pl[1]:
                            if p_.startswith(".") and p_.endswith("|ast_grep::print::Diff"):
                                reads.add(p_[1:].split("|")[0])
            t = b["t"]
            if t[0] == "call":
                for a in t[2]:
                    if a[0] != "k":
                        for p_ in a[1][1]:
                            if p_.startswith(".") and p_.endswith("|ast_grep::print::Diff"):
                                reads.add(p_[1:].split("|")[0])
        called = {prog.fns[t].id for c in f.calls for t in prog.call_targets(c)}
        forwards = any(re.search(r"json_print::MatchJSON::<.*>::diff$", x) for x in called)
        ok = {"range", "replacement"} <= reads or forwards
        ctx.ob("R1", "announcer %s reads Diff.range / Diff.replacement" % f.id, ok, "fields of Diff read: %s%s" % (sorted(reads), "; forwards to MatchJSON::diff" if forwards else ""), where=f.loc())
    ctx.floor("R1", "JSON diff announcers", n_ann, 2)
    # apply_rewrite
    ar = ctx.anchor("R1", r"^ast_grep::print::interactive_print::apply_rewrite$")
    if ar:
        idx = [c for c in ar.calls if c.name == "index" and "String" in c.best]
        oks = []
        for c in idx:
            base = deep_roots(prog, ar, c.args[0])
            rng = ultimate_roots(prog, ar, c.args[1], TRANSPARENT | {"next", "into_iter"})
            b_ok = any(o.kind == "param" and "old_source" in field_path(o.proj) for o in base)
            r_ok = any(("contents" in field_path(o.proj)) or ("range" in field_path(o.proj)) or o.kind in ("op", "agg", "const") for ff, o in rng)
            oks.append(b_ok and r_ok)
        ctx.ob("R1", "apply_rewrite splices the payload's own old_source", bool(idx) and all(oks), "%d slice(s) of diffs.old_source with ranges of diffs.contents" % len(idx), where=ar.loc())
        ps = [(g, c) for g in prog.family(ar) for c in g.calls if c.name == "push_str"]
        rep = any(any("replacement" in field_path(o.proj) for ff, o in ultimate_roots(prog, g, c.args[1], TRANSPARENT | {"next", "into_iter", "deref"})) for g, c in ps)
        ctx.ob("R1", "apply_rewrite inserts the accepted replacement", rep, "push_str of diff.replacement", where=ar.loc())
    # the accept loop lets the FIRST of two overlapping edits win, and "first" is the order in which --json lists them (the scan's order).
    # Re-sorting the per-file list of Diffs on the way to the accept loop (by end, by length, by rule) changes which of two same-start edits
    # is first: -U then writes another edit than the announced one.
    resort = []
    for f in prog.fns.values():
        if f.crate != "ast_grep":
            continue
        for c in f.calls:
            if c.bb in f.live_blocks and c.name.startswith("sort") and c.args and c.args[0][0] != "k" and (
                    "print::Diff<" in f.locals[c.args[0][1][0]] or "node_match::NodeMatch<" in f.locals[c.args[0][1][0]]):
                resort.append(c)
    ctx.ob("R1", "the per-file list of Diffs is not re-sorted on its way to the accept loop", not resort,
           "no sort over a collection of print::Diff / NodeMatch in the cli (the scan's document order reaches the accept loop)" if not resort else
           "%s sorts the Diff list (%s): edits that start at the same byte change places relative to the order --json announces them in, and the accept loop keeps the first" % (resort[0].fn.id, resort[0].name),
           where=resort[0].fn.loc(resort[0].line) if resort else None)
    splice_purity(ctx, "R1")
    # the accept filter's position (`end`) and everything else the printing thread remembers is per payload (C17 R7)
    from .c17 import consumer_state
    consumer_state(ctx, "R1")
    frame_agreement(ctx, "R1")
    pd = ctx.anchor("R1", r"^ast_grep::print::interactive_print::process_diffs_interactive$")
    if pd:
        pushes = [c for c in pd.calls if c.name == "push" and "Vec" in c.best]
        cnt = [c for c in pd.calls if c.name == "saturating_add" or c.name == "add_assign"]
        lt = [bi for bi in pd.live_blocks for s in pd.blocks[bi]["s"] if s[0] == "A" and s[2][0] == "bin" and s[2][1] == "Lt"]
        ok_overlap = bool(lt) and bool(pushes) and all(any(pd.dominates(b, p.bb) for b in lt) for p in pushes)
        ctx.ob("R1", "overlap test dominates acceptance", ok_overlap, "`diff.range.start < end` comparison dominates every push into `confirmed`", where=pd.loc())
        ok_cnt = bool(cnt) and bool(pushes) and len(cnt) == len(pushes) and all(pd.dominates(p.bb, c.bb) or pd.dominates(c.bb, p.bb) for p in pushes for c in cnt)
        # control equivalence: whichever comes first, no path from it to the next iteration / the exit avoids the other one
        heads = [c2.bb for c2 in pd.calls if c2.name == "next" and "Iterator" in (c2.callee.get("trait") or "")] + pd.return_blocks()
        same = True
        for p_ in pushes:
            for c in cnt:
                a, b = (p_.bb, c.bb) if pd.dominates(p_.bb, c.bb) else (c.bb, p_.bb)
                if a != b and path_avoiding(pd, a, [b], heads):
                    same = False
        ctx.ob("R1", "applied-changes counter incremented exactly where a diff is accepted", ok_cnt and same, "%d push(es) and %d counter increment(s) on the same acceptance arm" % (len(pushes), len(cnt)), where=pd.loc())
        # `end` updated from the accepted diff's range.end
    # payload completeness: every Diff handed to the interactive processor becomes an entry of the payload (the only
    # legitimate drop is the overlap rule in the accept loop); a `continue` here would apply fewer edits than announced
    from .c13 import loop_of
    from ..query import option_arms
    n_pc = 0
    for f in prog.find_fns(r"^<ast_grep::print::interactive_print::InteractiveProcessor<P> as ast_grep::print::PrintProcessor<.*>>::print_(rule_)?diffs$"):
        n_pc += 1
        nx = [c for c in f.calls if c.name == "next" and "IntoIter" in c.best and f.in_loop(c.bb)]
        pushes = [c for c in f.calls if c.name == "push" and "Vec" in c.best]
        ok = bool(nx) and bool(pushes)
        detail = "loop or push not found"
        if not ok:
            # the same loop as one expression: `diffs.into_iter().map(|d| …InteractiveDiff::new(d, …)).collect::<Result<Vec<_>>>()?`
            from ..query import iter_chain, DROPPING_ITER
            for g_, bi_, si_, st_ in prog.aggregates_of(r"^ast_grep::print::interactive_print::Diffs$"):
                if g_ is not f:
                    continue
                ops_ = dict(zip(st_[2][1]["fields"], st_[2][2]))
                if "contents" not in ops_ or ops_["contents"][0] == "k":
                    continue
                ad, lv = iter_chain(prog, f, ops_["contents"])
                names = {x[1].name for x in ad}
                from_param = any(o.kind == "param" and o.ref == 2 and ff is f for ff, o in lv)
                if "collect" in names and from_param:
                    drop = sorted(names & DROPPING_ITER)
                    ok = not drop
                    detail = ("the payload's contents are collected from the diffs handed in through %s — no element-dropping adaptor" % sorted(names)) if ok else \
                        "announced edits pass through %s before they become payload entries: some never reach the writer" % drop
            ctx.ob("R1", "payload completeness in %s" % f.name, ok, detail, where=f.loc())
            continue
        if ok:
            arms = option_arms(f, nx[0])
            body = loop_of(f, nx[0].bb)
            skipped = False
            for sb in arms["some"]:
                # can the loop head be reached again from the Some arm without passing a push?
                if path_avoiding(f, sb, [p_.bb for p_ in pushes], [nx[0].bb]):
                    skipped = True
            ok = not skipped
            detail = "each iteration over the diffs either pushes an InteractiveDiff or leaves by error" if ok else "an iteration can go back to the loop head without pushing: some announced edits never reach the writer"
        ctx.ob("R1", "payload completeness in %s" % f.name, ok, detail, where=f.loc())
    ctx.floor("R1", "interactive diff payload builders", n_pc, 2)
    # upstream of the processor: scan.rs turns the fixable matches into Diffs; the only match it may leave out is one whose rule
    # has no fixer. (Deciding overlap here — on node ranges, before the user accepted anything — drops edits that --json announces
    # and that the accept loop, which compares the EDIT ranges of ACCEPTED diffs, would have applied.)
    md = ctx.anchor("R1", r"^ast_grep::scan::match_rule_diff_on_file$")
    if md:
        from ..query import closure_consumer
        ok, detail = False, "no closure calling Diff::generate found"
        for g in prog.closures_of(md):
            gen = [c for c in g.calls if c.best.endswith("Diff::<'n>::generate") and c.bb in g.live_blocks]
            if not gen:
                continue
            fx = [c for c in g.calls if c.name == "as_ref" and any("fixer" in field_path(o.proj) for ff, o in ultimate_roots(prog, g, c.args[0], TRANSPARENT | {"deref"}))]
            cons = closure_consumer(prog, g)
            if not fx:
                ok, detail = False, "the test for a missing fixer was not found"
                break
            arms = option_arms(g, fx[0])
            nones = [b for b in g.live_blocks if any(st[0] == "A" and st[1][0] == 0 and not st[1][1] and st[2][0] == "agg" and st[2][1].get("variant") == "None" for st in g.blocks[b]["s"])]
            nones += [c.bb for c in g.calls if c.name == "from_residual" and c.dest and c.dest[0] == 0]
            # every way of yielding None lies on the no-fixer arm; on the fixer arm every path reaches Diff::generate
            none_region = set()
            for nb in arms["none"]:
                none_region |= g.reachable_from(nb, stop=arms["some"])
            stray = [b for b in nones if b not in none_region]
            skip = any(path_avoiding(g, sb, [c.bb for c in gen], list(g.return_blocks())) for sb in arms["some"])
            ok = bool(arms["some"]) and not stray and not skip
            detail = ("a match is left out only when its rule has no fixer; consumer: %s" % (cons[1].name if cons else "?")) if ok else \
                "a fixable match can be left out of the payload (None returned / Diff::generate skipped on the fixer arm, bb%s): the edit is announced by --json but never offered to the accept loop" % (stray or "path")
            break
        if detail == "no closure calling Diff::generate found":
            # loop form: `for (rule, m) in matches { let Some(fixer) = … else { continue }; diffs.push((Diff::generate(..), rule)) }`
            g = prog.inlined(md)
            gen = [c for c in g.calls if c.best.endswith("Diff::<'n>::generate") and c.bb in g.live_blocks and g.in_loop(c.bb)]
            fx = [c for c in g.calls if c.name == "as_ref" and any("fixer" in field_path(o.proj) for ff, o in ultimate_roots(prog, g, c.args[0], TRANSPARENT | {"deref"}))]
            heads = [c.bb for c in g.calls if c.name == "next" and g.in_loop(c.bb)]
            pushes = [c.bb for c in g.calls if c.name in ("push", "extend", "insert") and g.in_loop(c.bb)]
            if gen and fx and heads and pushes:
                arms = option_arms(g, fx[0])
                skip = any(path_avoiding(g, sb, [c.bb for c in gen], heads) for sb in arms["some"])
                unpushed = any(path_avoiding(g, c.bb, pushes, heads) for c in gen)
                leaves = any(set(g.return_blocks()) & set(g.reachable_from(sb, stop=heads)) for sb in arms["some"])
                ok = bool(arms["some"]) and not skip and not unpushed and not leaves
                detail = "loop form: on the fixer arm every iteration reaches Diff::generate and the push, and the loop is not left" if ok else \
                    "a fixable match can be left out of the payload (loop form: generate skipped=%s, not pushed=%s, loop left early=%s)" % (skip, unpushed, leaves)
        ctx.ob("R1", "match_rule_diff_on_file keeps every fixable match", ok, detail, where=md.loc())
    # the accept loop drops a diff that starts before the end of the last accepted one: the list it receives must be in
    # ascending order. Fix diffs are produced in document order by the scan; whatever is merged into them afterwards
    # (unused-suppression edits) must be followed by a sort on every path.
    ir = ctx.anchor("R1", r"^ast_grep_config::combined::ScanResultInner::<'t, D>::into_result$")
    if ir:
        def is_diffs(c):
            return any(o.kind == "call" and o.ref.name == "collect" or (o.kind == "param" and "diffs" in field_path(o.proj)) for o in deep_roots(prog, ir, c.args[0], TRANSPARENT | {"deref_mut", "as_mut_slice"}))
        merges = [c for c in ir.calls if c.name in ("extend", "push", "append", "insert") and "Vec" in c.best and is_diffs(c)]
        diffs_merges = []
        for c in merges:
            # which vector: the one that ends up in ScanResult.diffs
            aggs = [st for bi in ir.live_blocks for st in ir.blocks[bi]["s"] if st[0] == "A" and st[2][0] == "agg" and st[2][1].get("adt", "").endswith("::ScanResult")]
            if not aggs:
                continue
            ops = dict(zip(aggs[0][2][1]["fields"], aggs[0][2][2]))
            dv = {(o.kind, id(o.ref) if o.kind == "call" else o.ref) for o in deep_roots(prog, ir, ops["diffs"])}
            cv = {(o.kind, id(o.ref) if o.kind == "call" else o.ref) for o in deep_roots(prog, ir, c.args[0], TRANSPARENT | {"deref_mut"})}
            if dv & cv:
                diffs_merges.append(c)
        # in apply mode the edits of the built-in unused-suppression rule belong to the file's ONE payload (the fix-diff vector): left
        # in `matches` they become a second whole-file payload whose rewrite overwrites the first (finding F11's mechanism)
        from ..query import iter_chain
        joins = False
        for c in diffs_merges:
            if len(c.args) > 1:
                _, lv = iter_chain(prog, ir, c.args[1])
                if any(o.kind == "param" and "unused_suppressions" in field_path(o.proj) for lf, o in lv) or \
                        any(o.kind == "param" and "unused_suppressions" in field_path(o.proj) for o in deep_roots(prog, ir, c.args[1], TRANSPARENT | {"into_iter", "map", "iter"})):
                    joins = True
        if not joins:
            joins = any("unused_suppressions" in repr(ir.blocks[b]["s"]) + repr(ir.blocks[b]["t"]) for c in diffs_merges for b in ir.live_blocks if ir.dominates(b, c.bb) and b != c.bb and
                        any(cc.bb == b and cc.name in ("into_iter", "iter", "drain") for cc in ir.calls))
        ctx.ob("R1", "unused-suppression edits join the file's fix-diff vector in apply mode", joins,
               "ScanResultInner::into_result extends diffs with self.unused_suppressions" if joins else
               "the unused-suppression matches are never merged into ScanResult.diffs: under -U they reach the printer as a separate whole-file payload, and the rewrite of the later "
               "payload overwrites the edits of the earlier one although both are counted as applied", where=ir.loc())
        sorts = [c for c in ir.calls if c.name.startswith("sort")]
        bad = [c for c in diffs_merges if path_avoiding(ir, c.bb, [s_.bb for s_ in sorts if ir.dominates(c.bb, s_.bb)], ir.return_blocks())]
        ctx.ob("R1", "diffs stay ordered after merging suppression edits", not bad and (bool(diffs_merges) or True),
               "%d merge(s) into the fix-diff vector, each followed by a sort on every path to the return" % len(diffs_merges) if not bad else
               "edits are appended to the fix-diff vector (L%s) without re-sorting: the accept loop assumes ascending order and drops an edit that starts before the previously accepted one, although --json announces it" % [c.line for c in bad],
               where=ir.loc())
    ra = ctx.anchor("R1", r"^ast_grep::print::interactive_print::InteractivePrinter::<P>::rewrite_action$")
    if ra:
        ie = [c for c in ra.calls if c.name == "is_empty"]
        wr = [c for c in ra.calls if c.best == "std::fs::write"]
        ok = False
        if ie and wr:
            ba = bool_arms(ra, ie[0])
            if ba:
                tb = ra.reachable_from(ba["true"], stop=[ba["false"]])
                ok = all(w.bb not in tb for w in wr)
        ctx.ob("R1", "files without accepted edits are not written", ok, "fs::write is not reachable when diffs.contents is empty", where=ra.loc())

    # ---- R2 -------------------------------------------------------------------------------------
    WR = re.compile(r"^std::fs::(write|File::create|File::create_new)$|^std::fs::File::(create|create_new)$|^std::fs::OpenOptions::open$")
    writers = [c for f in prog.fns.values() if f.crate == "ast_grep" for c in f.calls if WR.search(c.best)]
    allowed_other = re.compile(r"^ast_grep::(new::|verify::|completions::)")
    for c in writers:
        top = c.fn.root or c.fn.id
        user = not allowed_other.search(top)
        if user:
            ctx.ob("R2", "file writer %s" % top, top == "ast_grep::print::interactive_print::InteractivePrinter::<P>::rewrite_action", "%s writes a file that can be a user source file" % c.best, where=c.fn.loc(c.line))
        else:
            ctx.ob("R2", "file writer %s" % top, True, "scaffolding/snapshot/completions writer (not user sources)", where=c.fn.loc(c.line), nontrivial=False)
    ctx.floor("R2", "file writers in cli", len(writers), 3)
    # what is written is the payload's own path — no temporary sibling, no rename/remove/copy next to user sources (a fixed temporary
    # name derived from the file's stem overwrites and then removes an unrelated `<stem>.tmp`; a rename replaces symlinks, splits hard
    # links and drops the executable bit)
    ra2 = prog.find_fns(r"^ast_grep::print::interactive_print::InteractivePrinter::<P>::rewrite_action$")
    for f in ra2:
        fi = prog.inlined(f)
        for c in fi.calls:
            if c.best == "std::fs::write" and c.bb in fi.live_blocks:
                names = set()
                seen = set()
                def walk(op, depth=0):
                    if op[0] == "k" or depth > 10:
                        return
                    for o in fi.trace_operand(op):
                        k = (o.kind, o.ref if isinstance(o.ref, (int, str)) else id(o.ref))
                        if k in seen:
                            continue
                        seen.add(k)
                        if o.kind == "call":
                            names.add(o.ref.name)
                            if o.ref.args:
                                walk(o.ref.args[0], depth + 1)
                walk(c.args[0])
                badn = sorted(n for n in names if n in ("with_extension", "with_file_name", "join", "push", "set_extension", "set_file_name", "temp_dir", "format", "parent"))
                ctx.ob("R2", "rewrite_action writes the payload's own path", not badn, "fs::write(path, ..) with the Diffs' path" if not badn else
                       "the path written is derived by %s: a file that is not the scanned file is created/overwritten" % badn, where=f.loc(c.line))
    others = [c for f in prog.fns.values() if f.crate == "ast_grep" and not allowed_other.search(f.root or f.id) for c in f.calls
              if c.bb in f.live_blocks and re.search(r"^std::fs::(rename|remove_file|remove_dir_all|remove_dir|copy|hard_link|set_permissions)$|^std::os::unix::fs::symlink$", c.best)]
    ctx.ob("R2", "no rename/remove/copy of user files", not others, "none in the scanning/rewriting code" if not others else
           "%s calls %s: files that no announced edit names are created, replaced or removed" % (others[0].fn.id, others[0].best), where=others[0].fn.loc(others[0].line) if others else None)
    # payload creation inside loops of produce_item
    PAY = {"print_diffs", "print_rule_diffs"}
    n = 0
    for impl in prog.impls:
        if impl.get("trait") != "ast_grep::utils::worker::PathWorker":
            continue
        f = prog.impl_method(impl, "produce_item")
        if f is None:
            continue
        n += 1
        loops = f.loop_blocks()
        in_loop = []
        for c in f.calls:
            if c.bb not in loops:
                continue
            reach = set()
            for t in prog.call_targets(c):
                reach |= prog.reach([t])
            direct = c.name in PAY
            via = [x for x in reach if x in prog.fns and any(c2.name in PAY for c2 in prog.fns[x].calls) and prog.fns[x].crate == "ast_grep" and "print::" not in x]
            if direct or via:
                in_loop.append("%s (L%d)" % (c.name, c.line))
        key = "payload-in-loop %s" % f.id
        ctx.ob("R2", key, not in_loop,
               "no Diffs payload is created inside a loop" if not in_loop else
               "whole-file Diffs payloads are created per loop iteration (%s): each payload snapshots the file and rewrite_action overwrites the file from it, so edits of earlier payloads of the same path are lost although they are counted as applied" % ", ".join(sorted(set(in_loop))),
               where=f.loc())
    ctx.floor("R2", "PathWorker::produce_item impls", n, 3)

    r3(ctx)
    from .c01 import r9 as overlap_boundary
    from ..core import Ctx
    sub = Ctx("C01", ctx.tier, prog)
    overlap_boundary(sub)
    for o in sub.obligations:
        if "ast_grep::print::" in o["key"] or o["key"].startswith("R9:floor"):
            ctx.ob("R1", o["key"].split(":", 1)[1], o["ok"], o["detail"], where=o["where"], nontrivial=o.get("nontrivial", True))


MUTATORS = re.compile(r"::(retain|retain_mut|dedup\w*|remove|swap_remove|truncate|drain|pop|clear|split_off|sort\w*|reverse|rotate\w*|swap|insert|push|extend\w*|append)$")


def suppression_before_store(ctx, rid):
    """a suppressed match is stored in neither list: in CombinedScan::scan every place that keeps the result of `match_node` — the
    `matches` of announce mode and the `diffs` of apply mode alike — lies on the not-suppressed side of the `suppressed_id` test."""
    from ..query import deep_roots, TRANSPARENT, option_arms
    prog = ctx.prog
    sc0 = ctx.anchor(rid, r"^ast_grep_config::combined::CombinedScan::<'r, L>::scan$")
    if not sc0:
        return
    sc = prog.inlined(sc0, keep=("suppressed_id",))
    sup = [c for c in sc.calls if c.name == "suppressed_id" and c.bb in sc.live_blocks]
    ctx.floor(rid, "suppressed_id tests in CombinedScan::scan", len(sup), 1)

    def value_roots(op, depth=0):
        out = []
        for o in sc.trace_operand(op):
            if o.kind == "agg" and depth < 3:
                for sub in o.ref[2][2]:
                    out += value_roots(sub, depth + 1)
            else:
                out += deep_roots(prog, sc, op, TRANSPARENT) if depth == 0 else [o]
        return out
    stores = []
    for c in sc.calls:
        if c.bb not in sc.live_blocks or c.name not in ("push", "insert", "extend", "push_back") or len(c.args) < 2:
            continue
        if any(o.kind == "call" and o.ref.name in ("match_node", "match_node_with_env") for a in c.args[1:] for o in value_roots(a)):
            stores.append(c)
    ctx.floor(rid, "places in CombinedScan::scan that keep a match", len(stores), 2)
    none_side = [b for c in sup for b in option_arms(sc, c)["none"]]
    for n, c in enumerate(stores):
        ok = any(sc.dominates(b, c.bb) or b == c.bb for b in none_side)
        ctx.ob(rid, "CombinedScan::scan/store#%d of a match only when it is not suppressed" % n, ok,
               "dominated by the `None` side of suppressed_id" if ok else
               "a match is kept (%s at %s) on a path that did not ask whether an ast-grep-ignore comment suppresses it: -U/-i rewrite code whose finding no other "
               "front end reports, and the comment counts as unused" % (c.name, sc.loc(c.line)), where=sc0.loc(c.line))


def r3(ctx):
    import json
    from .c17 import producer_roots
    prog = ctx.prog
    roots = producer_roots(prog)
    P = {p for p in prog.reach(roots) if p in prog.fns and prog.fns[p].crate == "ast_grep"}
    ctx.floor("R3", "producer-reachable cli functions", len(P), 60)
    tag = "|ast_grep::utils::args::OutputArgs"
    ni = ctx.anchor("R3", r"^ast_grep::utils::args::OutputArgs::needs_interactive$")
    readers = []
    for fid in sorted(P):
        f = prog.fns[fid]
        if any(tag in json.dumps(f.blocks[b]) for b in f.live_blocks):
            readers.append(fid)
    allowed = [ni.id] if ni else []
    extra = [r for r in readers if r not in allowed]
    ctx.ob("R3", "producers read output options only via needs_interactive", bool(ni) and not extra,
           "OutputArgs fields are read, in producer-reachable code, only by needs_interactive" if not extra else
           "producer-reachable code reads OutputArgs fields directly in %s: what is scanned/reported then depends on the output mode, so the edits written by -U "
           "are no longer the ones the same command announces under --json" % extra, where=prog.fns[extra[0]].loc() if extra else (ni.loc() if ni else None))
    # inside CombinedScan::scan the separate_fix flag (set by -U/-i, clear for --json) may only decide WHERE a match is stored: every
    # rule of the node's kind is still evaluated (matching, suppression bookkeeping) — the C01-R6 scan-loop obligations
    from . import c01
    from ..core import Ctx
    sub = Ctx("C01", ctx.tier, prog)
    c01.r6(sub)
    n_scan = 0
    for o in sub.obligations:
        k = o["key"].split(":", 1)[1]
        if "CombinedScan::scan" not in k:
            continue
        n_scan += 1
        ctx.ob("R3", "scan evaluates alike in both modes/" + k, o["ok"], o["detail"] + ("" if o["ok"] else
               " — in apply mode (separate_fix) rules are skipped that announce mode evaluates: their suppression comments count as unused and -U deletes them, edits never announced by --json"), where=o.get("where"))
    ctx.floor("R3", "CombinedScan::scan loop obligations shared with C01 R6", n_scan, 5)
    suppression_before_store(ctx, "R3")
    # uses of needs_interactive in producers
    n_use = 0
    for fid in sorted(P):
        f = prog.fns[fid]
        for c in f.calls:
            if ni and prog.call_targets(c) == [ni.id]:
                n_use += 1
                # every use of the result: a switch operand, or the separate_fix argument of CombinedScan::scan
                bad = []
                for c2 in f.calls:
                    if c2 is c:
                        continue
                    for i, a in enumerate(c2.args):
                        if a[0] != "k" and any(o.kind == "call" and o.ref is c for o in f.trace_operand(a)):
                            if not (c2.best.endswith("CombinedScan::<'r, L>::scan") and i == 2):
                                bad.append("%s arg %d" % (c2.name, i))
                ctx.ob("R3", "%s/needs_interactive only selects the diff route" % f.id.split(" as ")[0].lstrip("<").split("::")[-1], not bad,
                       "result is branched on and passed as separate_fix to CombinedScan::scan only" if not bad else "result flows into %s" % bad, where=f.loc(c.line))
    ctx.floor("R3", "uses of needs_interactive in producers", n_use, 1)
    # selected rules reach CombinedScan::new unmodified
    for pat, selector in ((r"^<ast_grep::scan::ScanWithConfig as ast_grep::utils::worker::PathWorker>::produce_item$", "get_rule_from_lang"),):
        f = ctx.anchor("R3", pat)
        if not f:
            continue
        f = prog.inlined(f)
        sel = [c for c in f.calls if c.name == selector]
        news = [c for c in f.calls if c.best.endswith("CombinedScan::<'r, L>::new")]
        ok = bool(sel) and bool(news)
        muts = []
        if ok:
            for c in f.calls:
                if MUTATORS.search(c.best) and c.args and any(o.kind == "call" and o.ref in sel for o in deep_roots(prog, f, c.args[0], TRANSPARENT | {"deref_mut", "as_mut_slice", "as_mut"})):
                    muts.append(c.name)
            direct = any(o.kind == "call" and o.ref in sel and not [p for p in o.proj if p.startswith("()")] for o in deep_roots(prog, f, news[0].args[0], set()))
            ok = not muts and direct
        ctx.ob("R3", "ScanWithConfig::produce_item/selected rules reach CombinedScan::new unmodified", ok,
               "CombinedScan::new receives the vector returned by %s as is" % selector if ok else "the rule vector is modified between selection and CombinedScan::new (%s) or does not come straight from %s" % (muts, selector), where=f.loc())


def frame_agreement(ctx, rid):
    prog = ctx.prog
    # frame agreement: Diff ranges are absolute offsets into the DOCUMENT text (Root::get_text); tree-sitter's root node may start
    # after leading whitespace, so a node's text() is another frame — the snapshot the splice is based on must be the document text
    from ..query import value_sources
    n_snap = 0
    for f, bi, si, st in prog.aggregates_of(r"^ast_grep::print::interactive_print::Diffs$"):
        if f.impl_trait in ("core::clone::Clone", "core::fmt::Debug"):
            continue
        ops = dict(zip(st[2][1]["fields"], st[2][2]))
        if "old_source" not in ops or ops["old_source"][0] == "k":
            continue
        srcs = value_sources(prog, f, ops["old_source"])
        if any(o.kind == "param" and "old_source" in field_path(o.proj) for ff, o in srcs):
            continue  # moved from another Diffs payload
        n_snap += 1
        names = sorted({o.ref.best if o.kind == "call" else describe_origin(ff, o) for ff, o in srcs})
        good = bool(srcs) and all(o.kind == "call" and re.search(r"(node::Root::<[^:]*(::[^:]+)*>::(get_text|source)|Diff::<'n>::get_root_text|source::Doc::get_source)$", o.ref.best) or
                                  (o.kind == "call" and o.ref.name == "new" and "String" in o.ref.best) for ff, o in srcs)
        ctx.ob(rid, "Diffs.old_source built in %s is the document text" % f.id, good,
               "snapshot comes from %s" % names if good else
               "the snapshot that apply_rewrite splices comes from %s, not from the document text (Root::get_text): Diff ranges are absolute document offsets, "
               "a node's text() starts at the node (tree-sitter's root node skips leading whitespace), so every edit is shifted" % names, where=f.loc(st[3]))
    ctx.floor(rid, "Diffs snapshot sites", n_snap, 2)
    read_file_identity(ctx, rid)


def read_file_identity(ctx, rid):
    prog = ctx.prog
    # …and the text that is scanned is the text on disk: read_file hands out exactly what read_to_string returned (offsets reported
    # by --json, by `sg test` and by the library refer to the file's bytes; a normalised copy — BOM stripped, line ends changed —
    # shifts every range and is written back by --update-all in place of the original bytes)
    rf = ctx.anchor(rid, r"^ast_grep::utils::read_file$")
    if rf:
        oks = []
        for bi in sorted(rf.live_blocks):
            for st in rf.blocks[bi]["s"]:
                if st[0] == "A" and st[1][0] == 0 and not st[1][1] and st[2][0] == "agg" and st[2][1].get("variant") == "Ok":
                    oks += [(ff, o) for x in st[2][2] for ff, o in ultimate_roots(prog, rf, x, {"branch", "with_context", "context", "map_err", "unwrap", "expect", "from_residual"})]
        good = bool(oks) and all(o.kind == "call" and re.search(r"^std::fs::read_to_string$", o.ref.best) for ff, o in oks)
        ctx.ob(rid, "read_file returns the file content unmodified", good,
               "Ok(content) is the very String returned by std::fs::read_to_string" if good else
               "read_file returns %s instead of the string read from disk: the scanned text is not the file's text, so byte ranges differ from the other front ends and --update-all rewrites bytes no edit touched" %
               sorted({describe_origin(ff, o) for ff, o in oks}), where=rf.loc())



STRING_GROW = {"push_str", "reserve", "reserve_exact", "extend", "push", "write_str", "add_assign", "deref_mut", "deref"}


def splice_purity(ctx, rid):
    """apply_rewrite is a pure splice of the accepted edits: the text it builds is only ever appended to (slices of the old source,
    replacement texts) and the read cursor into the old source is only ever set to the end of an accepted edit's range.  Anything else
    (truncating what was written, skipping more of the old source than the edit's range) writes bytes no announced edit describes.
    Works on the function and its closures (the loop may be a `fold` whose accumulator carries the text and the cursor)."""
    from .c11 import _src_local
    prog = ctx.prog
    ar0 = ctx.anchor(rid, r"^ast_grep::print::interactive_print::apply_rewrite$")
    if not ar0:
        return
    ar = prog.inlined(ar0)
    fam = prog.family(ar)

    def is_old_source(g, op):
        if op[0] == "k":
            return False
        for h, o in ultimate_roots(prog, g, op, TRANSPARENT | {"index"}):
            if o.kind == "param" and "old_source" in field_path(o.proj):
                return True
        return False

    bad = []
    n_mut = 0
    for g in fam:
        for c in g.calls:
            if c.bb not in g.live_blocks or not c.args or c.args[0][0] == "k":
                continue
            ty = g.locals[c.args[0][1][0]]
            if not ty.startswith("&mut alloc::string::String") or is_old_source(g, c.args[0]):
                continue
            n_mut += 1
            if c.name not in STRING_GROW:
                bad.append("%s at %s" % (c.name, g.loc(c.line)))
    # what is appended: a slice of the old source, or an accepted replacement as it is (no re-encoding of line ends, no trimming)
    foreign = []
    IDENT = {"deref", "as_str", "as_ref", "borrow", "as_bytes", "as_mut_str", "deref_mut", "index", "clone", "to_string", "to_owned", "into", "from", "as_mut"}
    for g in fam:
        for c in g.calls:
            if c.bb not in g.live_blocks or c.name not in ("push_str", "extend", "push", "write_str") or len(c.args) < 2 or c.args[0][0] == "k":
                continue
            if not g.locals[c.args[0][1][0]].startswith("&mut alloc::string::String") or is_old_source(g, c.args[0]):
                continue
            seen = set()
            def walk(h, op, depth=0):
                if op[0] == "k" or depth > 10:
                    return
                for o in h.trace_operand(op):
                    k = (h.id, o.kind, o.ref if isinstance(o.ref, (int, str)) else id(o.ref))
                    if k in seen:
                        continue
                    seen.add(k)
                    if o.kind == "call":
                        if o.ref.name in IDENT and o.ref.args:
                            walk(h, o.ref.args[0], depth + 1)
                        elif o.ref.name in ("next", "into_iter", "iter"):
                            pass
                        else:
                            foreign.append("%s at %s" % (o.ref.name, h.loc(o.ref.line)))
            walk(g, c.args[1])
    ctx.ob(rid, "apply_rewrite/appends only old text and replacements as they are", not foreign,
           "every appended piece is a slice of the old source or a Diff.replacement through borrow/deref only" if not foreign else
           "an appended piece is computed by %s: the bytes written differ from the announced replacement (e.g. line ends re-encoded only on the -U path)" % foreign[:3], where=ar0.loc())
    ctx.ob(rid, "apply_rewrite/output is only appended to", not bad and n_mut >= 2,
           "%d mutating call(s) on the text being built, all appends" % n_mut if not bad else
           "the text being written is modified by %s: bytes already written (old source or an accepted replacement) are taken back, which no announced edit describes" % bad[:3], where=ar0.loc())
    # cursor: lower bounds of the slices of the old source
    n_slices = 0
    badc = []
    for g in fam:
        for c in g.calls:
            if c.name != "index" or c.bb not in g.live_blocks or len(c.args) != 2 or not is_old_source(g, c.args[0]):
                continue
            for o in g.trace_operand(c.args[1]):
                if not (o.kind == "agg" and "ops::range::Range" in str(o.ref[2][1].get("adt", "")) and "start" in o.ref[2][1].get("fields", [])):
                    continue
                n_slices += 1
                l = _src_local(g, o.ref[2][2][o.ref[2][1]["fields"].index("start")])
                if not l:
                    continue
                for d in g.defs.get(l[1], []):
                    if d[0] == "call":
                        if d[1].name not in ("fold", "try_fold"):      # the accumulator of a fold: its closure is checked below
                            badc.append("result of %s" % d[1].name)
                        continue
                    rv = d[3]
                    if d[1] not in g.live_blocks or (rv[0] == "use" and rv[1][0] == "k"):
                        continue
                    ors = g.trace_operand(rv[1]) if rv[0] == "use" else []
                    def from_range_end(h, o2):
                        if o2.kind == "call" and o2.ref.name in ("fold", "try_fold"):
                            return True   # the accumulator of a fold: its closure is checked as a family member
                        if o2.kind == "param" and h is not ar and not o2.proj:
                            return True   # the accumulator component handed to the fold closure
                        ty2 = h.locals[o2.ref] if o2.kind in ("param", "local") else (h.locals[o2.ref.dest[0]] if o2.kind == "call" else "")
                        return o2.kind in ("param", "local", "call") and "end" in field_path(o2.proj) and "range" in (" ".join(map(str, o2.proj)) + " " + ty2)
                    if not ors or not all(from_range_end(g, o2) or (o2.kind == "param" and g is not ar and all(re.match(r"^\.\d+\|$", str(p_)) or p_ in ("*", "&") for p_ in o2.proj)) for o2 in ors):
                        badc.append("assignment at %s" % g.loc(g.blocks[d[1]]["s"][d[2]][3]))
    ctx.floor(rid, "slices of the old source in apply_rewrite", n_slices, 2)
    ctx.ob(rid, "apply_rewrite/read cursor is set only to the end of an accepted edit", not badc,
           "the position slices of the old source start from is only ever an accepted edit's range.end" if not badc else
           "the cursor into the old source is also moved by %s: more (or less) of the old text is skipped than the accepted edit's range" % badc[:3], where=ar0.loc())
    # a fold closure hands on (text, cursor) or the cursor alone: the cursor it returns is an edit's range.end
    for g in fam:
        if g is ar:
            continue
        if g.locals[0] == "usize":
            rets = g.trace_operand(["c", [0, []]])
            okr = bool(rets) and all("end" in field_path(o2.proj) for o2 in rets)
            ctx.ob(rid, "apply_rewrite/fold closure hands on range.end as the cursor", okr,
                   "accumulator cursor = diff.range.end" if okr else "the cursor returned by the fold closure is not an edit's range.end", where=g.loc())
        for bi in sorted(g.live_blocks):
            for st in g.blocks[bi]["s"]:
                if st[0] == "A" and st[1][0] == 0 and not st[1][1] and st[2][0] == "agg" and st[2][1].get("k") == "tuple":
                    for op in st[2][2]:
                        if op[0] != "k" and g.locals[op[1][0]] == "usize":
                            ors = g.trace_operand(op)
                            ok = bool(ors) and all("end" in field_path(o2.proj) for o2 in ors)
                            ctx.ob(rid, "apply_rewrite/fold closure hands on range.end as the cursor", ok,
                                   "accumulator cursor = diff.range.end" if ok else "the cursor component returned by the fold closure is not an edit's range.end", where=g.loc(st[3]))
