"""C12 — accepted rules are self-consistent: check funnel, visitor exhaustiveness, fixer/transform agreement."""
import re
from ..query import (self_switches, arm_blocks, calls_in, receiver_roots, ok_blocks, proj_variants, field_path,
                     deep_roots, ultimate_roots, describe_origin, TRANSPARENT)

EXPLANATION = (
    "Decided (for every rule document, because these are path/coverage statements about the loader's code): "
    "R1 every RuleCore handed out passed check_rule_with_hint (single caller of the unchecked constructor, Ok return "
    "dominated by the successful check; every hint arm reaches the constraint/transform/fix variable checks, "
    "Normal/Rewriter also verify_util; rewriters are checked; RuleConfig requires a kind set); "
    "R2 the structural visitors defined_vars and verify_util reach the same-named visitor on every rule-bearing "
    "field/variant of every type under Rule (computed from the ADT tables); R3 the cycle visitors (Rule::check_cyclic and "
    "the toposort's visit_dependent_rule_ids) descend into every operator that evaluates a sub-rule on the same node or a "
    "sibling set containing it, and every Transformation variant reports its source variable to the sorter; "
    "R4 every construction of a rule's fix template receives the transformation names on every path where they exist; "
    "R5 template-side and pattern-side variable recognisers share one character class. R6 (converse clause) a sub-rule whose variables "
    "defined_vars() declares is never evaluated through the env-less find/matches API — such variables are accepted in fix/transform/"
    "constraints but can never be captured."
)
NOT_DECIDED = (
    "That Pattern::defined_vars equals the variables actually bound at run time; the converse clause 'every variable "
    "occurrence in the fix is replaced by its value' beyond the structural R4 (value level, C07)."
)
TRUSTED = ["nightly rustc MIR/ADT tables", "table of same-node operators (All, Any, Not, Matches, NthChild.of_rule) with MIR supporting facts re-derived each run",
           "exception: Rule::defined_vars returns {} for Matches (util vars are added by get_local_util_vars; supporting call checked)"]

RULE = "ast_grep_config::rule::Rule"
VISITORS = ("defined_vars", "verify_util")
# by-name references: the visitor must not (and cannot) descend; reason recorded
BY_NAME = {"ast_grep_config::rule::referent_rule::ReferentRule": "reference by rule id; resolved through the registration at match time"}


def head(ty):
    return ty.split("<", 1)[0].lstrip("&").strip()


def adt_heads_in(prog, ty):
    return [a for a in prog.adts if re.search(r"(?<![\w:])" + re.escape(a) + r"(?![\w])", ty)]


def rule_bearing(prog):
    """ADTs reachable from Rule's payloads (not looking inside by-name reference types) whose fields
    (transitively) contain a Rule"""
    reach = set()
    st = [RULE]
    while st:
        a = st.pop()
        if a in reach or a not in prog.adts:
            continue
        reach.add(a)
        if a in BY_NAME:
            continue
        for v in prog.adts[a]["variants"]:
            for f in v["fields"]:
                st.extend(adt_heads_in(prog, f["ty"]))
    bearing = {RULE} | {a for a in reach if a in BY_NAME}
    changed = True
    while changed:
        changed = False
        for a in reach:
            if a in bearing:
                continue
            for v in prog.adts[a]["variants"]:
                for f in v["fields"]:
                    if any(h in bearing for h in adt_heads_in(prog, f["ty"])) or (a.startswith("ast_grep_core::ops::") and re.search(r"(?<![\w:])(P|M|P1|P2)(?![\w])", f["ty"])):
                        bearing.add(a)
                        changed = True
    return reach, bearing


def bearing_fields(prog, adt, bearing):
    """variant -> [field names] that contain a rule"""
    out = {}
    for v in prog.adts[adt]["variants"]:
        fs = []
        for f in v["fields"]:
            hs = adt_heads_in(prog, f["ty"])
            if any(h in bearing for h in hs):
                fs.append((f["name"], f["ty"], [h for h in hs if h in bearing]))
        out[v["name"]] = fs
    return out


def run(ctx):
    prog = ctx.prog
    ctx.rule("R1", "check funnel: unchecked constructor has one caller; Ok return dominated by a successful check; every hint arm reaches all variable checks")
    ctx.rule("R2", "visitors defined_vars/verify_util reach the same-named visitor on every rule-bearing field/variant (type-driven)")
    ctx.rule("R3", "cycle visitors descend into every same-node operator; every Transformation variant reports its source variable")
    ctx.rule("R4", "the fix template is built with the transformation names on every path where they exist")
    ctx.rule("R5", "one variable grammar: template scanner and pattern recogniser share the character-class functions")
    ctx.rule("R6", "a sub-rule whose variables defined_vars declares is always evaluated with the caller's environment (never through the env-less find/matches API)")
    r1(ctx)
    reach, bearing = rule_bearing(prog)
    r2(ctx, reach, bearing)
    r3(ctx, bearing)
    r4(ctx)
    r5(ctx)
    r6(ctx, bearing)
    used_vars_unmodified(ctx, "R3")
    ctx.rule("R9", "rewriters of a top-level rule inherit the environment the rule has just matched into (the variables check_var lets a rewriter's fix use), never the caller's pre-match environment")
    r9(ctx)
    ctx.rule("R8", "a variable occurrence in a fix/message is replaced from the environment map of its own class: single capture, ellipsis capture, transformed value")
    r8(ctx)
    ctx.rule("R7", "the kind set the acceptance test looks at is the kind set of what will be matched (every Matcher impl: potential_kinds covers match_node_with_env; "
             "a `matches` reference resolves to the same rule in both) — obligations shared with C01 R1/R2")
    r7(ctx)


STR_RESHAPE = re.compile(r"^(trim|strip_|replace|to_lowercase|to_uppercase|to_ascii|split|rsplit|index$|get$|get_unchecked|chars$|char_indices|bytes$|find$|rfind$|repeat|concat|join|format)")


def used_vars_unmodified(ctx, rid):
    """A transformation's source variable is looked at twice: check_var asks whether it is defined, the topological sort asks whether it
    is another transformation (dependency, order of application).  Both must look it up under the SAME name, i.e. use the result of
    `Transformation::used_vars()` as it is.  If one of them normalises the name (`trim_start_matches('$')`, lower-casing, …) the check
    accepts a source that the sort does not recognise as a dependency: the transformations then run in HashMap order and a
    transformation may read its source before it exists."""
    prog = ctx.prog
    sites = prog.who_calls(r"^ast_grep_config::transform::(transformation::Transformation|trans::Trans)::<.*>::used_vars$")
    ctx.floor(rid, "consumers of Transformation::used_vars", len(sites), 2)
    for n, c in enumerate(sorted(sites, key=lambda c: c.fn.id)):
        f = c.fn
        reshaped = []
        for c2 in f.calls:
            if c2 is c or c2.bb not in f.live_blocks or not c2.args or c2.args[0][0] == "k":
                continue
            if STR_RESHAPE.match(c2.name) and "str" in c2.best and any(o.kind == "call" and o.ref is c for o in deep_roots(prog, f, c2.args[0], TRANSPARENT)):
                reshaped.append(c2.name)
        ctx.ob(rid, "%s uses used_vars() as it is" % f.id, not reshaped,
               "the name is looked up unmodified" if not reshaped else
               "the source variable's name is passed through %s before it is looked up here, but not by the other consumer: the defined-variable check and the dependency sort "
               "disagree about which names are the same (a `$$T` source is accepted yet not ordered after transformation T)" % reshaped, where=f.loc(c.line))


ENV_PASS = {"clone", "to_mut", "deref", "deref_mut", "as_ref", "as_mut", "borrow", "borrow_mut", "unwrap_or", "unwrap_or_else", "unwrap", "expect", "map", "cloned", "into_owned", "to_owned"}


def r9(ctx):
    """register_rewriters checks a rewriter's fix against the variables of the enclosing rule (upper vars), so `fix: $OUTER.$X` is
    accepted.  At run time the rewriter sees those variables only if RuleCore::do_match hands apply_transform_in the environment the
    rule matched into — the scratch environment that match_node_with_env wrote — or the enclosing environment it was given itself.
    The caller's environment as it was BEFORE the match has none of the rule's captures: every such occurrence expands to ''."""
    prog = ctx.prog
    dm0 = ctx.anchor("R9", r"^ast_grep_config::rule_core::RuleCore::<L>::do_match$")
    if not dm0:
        return
    dm = prog.inlined(dm0)
    calls = [c for c in dm.calls if c.name in ("apply_transform_in", "apply_transform") and c.bb in dm.live_blocks]
    ctx.floor("R9", "transform applications in do_match", len(calls), 1)
    enc_params = [i for i in range(1, dm.nargs + 1) if "Option<&" in dm.locals[i] and "MetaVarEnv" in dm.locals[i]]
    for n, c in enumerate(calls):
        if len(c.args) < 4:
            ctx.ob("R9", "do_match/transform application#%d" % n, False, "apply_transform_in no longer takes the enclosing environment as its fourth argument: re-review", where=dm0.loc(c.line))
            continue
        found = set()
        seen = set()
        def walk(op, depth=0):
            if op[0] == "k" or depth > 14:
                return
            for o in dm.trace_operand(op):
                k = (o.kind, o.ref if isinstance(o.ref, (int, str)) else id(o.ref))
                if k in seen:
                    continue
                seen.add(k)
                if o.kind == "param":
                    found.add("enclosing" if o.ref in enc_params else "param %s" % dm.local_name(o.ref))
                elif o.kind == "agg" and str(o.ref[2][1].get("adt", "")).endswith("borrow::Cow"):
                    found.add("scratch")
                elif o.kind == "agg":
                    for sub in o.ref[2][2]:
                        walk(sub, depth + 1)
                elif o.kind == "call":
                    if o.ref.name in ENV_PASS:
                        for a in o.ref.args:
                            walk(a, depth + 1)
                    else:
                        found.add("call %s" % o.ref.name)
        walk(c.args[3])
        bad = sorted(found - {"enclosing", "scratch"})
        ok = bool(found) and not bad
        ctx.ob("R9", "do_match/transform application#%d inherits the matched environment" % n, ok,
               "the enclosing environment handed to the transformations comes from %s" % sorted(found) if ok else
               "the enclosing environment handed to the transformations comes from %s: for a top-level rule that is the environment BEFORE this rule matched — "
               "a rewriter's fix that uses a variable of the enclosing rule (accepted by the variable check) expands it to the empty string" % bad, where=dm0.loc(c.line))


GETTER_OF = {"Single": "get_match", "Multiple": "get_multiple_matches", "Transformed": "get_transformed"}


def r8(ctx):
    """The second half of C12: 'every variable occurrence in the fix is actually replaced by its captured or transformed value'.  The
    template keeps, per occurrence, a MetaVarExtract of one of three classes; the environment keeps three maps.  Structural part: in
    the function that expands an occurrence, each class arm reads the map of the same class, and the class of an occurrence whose name
    is a transformation name is Transformed (the transform names reach the classifier — R4)."""
    prog = ctx.prog
    f0 = ctx.anchor("R8", r"^ast_grep_core::replacer::template::maybe_get_var$")
    if not f0:
        return
    f = prog.inlined(f0)
    sws = self_switches(f, r"replacer::MetaVarExtract", param=2)
    ctx.ob("R8", "maybe_get_var/dispatch on the occurrence's class", len(sws) >= 1, "%d switch(es) over MetaVarExtract" % len(sws), where=f0.loc())
    if not sws:
        return
    bi, si = sws[0]
    arms = arm_blocks(f, si)
    for v, getter in sorted(GETTER_OF.items()):
        if v not in arms:
            ctx.ob("R8", "maybe_get_var/%s" % v, False, "no arm for MetaVarExtract::%s" % v, where=f0.loc())
            continue
        names = {c.name for c in calls_in(prog, f, arms[v]) if c.name in GETTER_OF.values()}
        ok = names == {getter}
        ctx.ob("R8", "maybe_get_var/%s reads %s" % (v, getter), ok,
               "the %s arm takes its text from MetaVarEnv::%s" % (v, getter) if ok else
               "the %s arm reads %s instead of exactly %s: an occurrence of that class is expanded from another class's map (empty text, or text of a different variable kind)" % (v, sorted(names) or "no environment map", getter),
               where=f0.loc())


def r7(ctx):
    """`RuleConfig::try_from` rejects a rule whose potential_kinds() is None.  That test only means 'the rule can only match a known set of
    node kinds' if potential_kinds() speaks about the rule that match_node_with_env runs: the C01 obligations R1 (superset per Matcher impl)
    and R2 (ReferentRule resolves `matches: id` through one lookup in both methods) are the static content of that clause."""
    from . import c01
    from ..core import Ctx
    sub = Ctx("C01", ctx.tier, ctx.prog)
    impls = c01.matcher_impls(ctx.prog)
    c01.r1_r2(sub, impls)
    c01.r2b(sub, impls)
    n = 0
    for o in sub.obligations:
        if o["rule"] not in ("R1", "R2"):
            continue
        n += 1
        ctx.ob("R7", o["key"].split(":", 1)[1], o["ok"], o["detail"], where=o.get("where"))
    ctx.floor("R7", "kind-set obligations imported from C01", n, 22)


# ------------------------------------------------------------------------------------------------
def r1(ctx):
    prog = ctx.prog
    gme = ctx.anchor("R1", r"^ast_grep_config::rule_core::SerializableRuleCore::get_matcher_from_env$")
    gmh = ctx.anchor("R1", r"^ast_grep_config::rule_core::SerializableRuleCore::get_matcher_with_hint$")
    chk = ctx.anchor("R1", r"^ast_grep_config::check_var::check_rule_with_hint$")
    if not (gme and gmh and chk):
        return
    callers = {c.fn.id for c in prog.call_sites.get(gme.id, [])}
    ctx.ob("R1", "get_matcher_from_env callers", callers == {gmh.id},
           "unchecked constructor get_matcher_from_env is called from %s" % sorted(callers), where=gme.loc())
    # Ok return dominated by check call + its Continue arm
    ccalls = [c for c in gmh.calls if c.best == chk.id]
    oks = ok_blocks(gmh, "Ok")
    if len(ccalls) != 1 or not oks:
        ctx.ob("R1", "get_matcher_with_hint/check", False, "expected one call of check_rule_with_hint and an Ok return (calls=%d, ok blocks=%d)" % (len(ccalls), len(oks)), where=gmh.loc())
    else:
        cc = ccalls[0]
        ok = all(gmh.dominates(cc.bb, b) for b in oks)
        # the branch on the check result: Break arm must not reach an Ok block
        br = [c for c in gmh.calls if c.name == "branch" and any(o.kind == "call" and o.ref is cc for o in gmh.trace_operand(c.args[0]))]
        arm_ok = False
        if len(br) == 1:
            # find switch on the branch result
            for bi in gmh.reachable_from(br[0].bb):
                si = gmh.switch_info(bi)
                if si and si.get("enum") and "ControlFlow" in si["enum"]:
                    roots = gmh.trace_place(si["place"])
                    if any(o.kind == "call" and o.ref is br[0] for o in roots):
                        brk = si["arms"].get("Break")
                        cont = si["arms"].get("Continue")
                        arm_ok = brk is not None and not (gmh.reachable_from(brk) & set(oks)) and all(b in gmh.reachable_from(cont) for b in oks)
                        break
        ctx.ob("R1", "get_matcher_with_hint/Ok dominated by successful check", ok and arm_ok,
               "every `Ok(ret)` is dominated by check_rule_with_hint and lies on its success arm only: dominated=%s, error-arm cannot reach Ok=%s" % (ok, arm_ok), where=gmh.loc(cc.line))
        # the checked values are the returned RuleCore's own parts
        ret_ok = True
        names = []
        for a in cc.args[:2] + cc.args[4:5]:
            roots = deep_roots(prog, gmh, a)
            names.append("; ".join(describe_origin(gmh, o) for o in roots))
            if not any(o.kind == "call" and o.ref.best == gme.id or (o.kind == "call" and o.ref.name in ("branch",)) for o in roots):
                # allow ret.<field> where ret is the unwrapped result of get_matcher_from_env
                if not any("get_matcher_from_env" in describe_origin(gmh, o) for o in roots):
                    ret_ok = False
        ctx.ob("R1", "get_matcher_with_hint/checks the returned matcher", ret_ok, "check_rule_with_hint receives parts of the matcher being returned: %s" % names, where=gmh.loc(cc.line))
    # hint arms
    sws = []
    for bi in sorted(chk.live_blocks):
        si = chk.switch_info(bi)
        if si and si.get("enum") and "CheckHint" in si["enum"]:
            sws.append((bi, si))
    if len(sws) != 1:
        ctx.ob("R1", "check_rule_with_hint/switch", False, "expected one switch over CheckHint, found %d" % len(sws), where=chk.loc())
    else:
        bi, si = sws[0]
        arms = arm_blocks(chk, si)
        need_all = ["check_var_in_constraints", "check_var_in_transform", "check_var_in_fix"]
        nvar = 0
        for v, blocks in sorted(arms.items()):
            nvar += 1
            calls = calls_in(prog, chk, blocks)
            reached = set()
            for c in calls:
                for t in prog.call_targets(c):
                    reached |= prog.reach([t])
            names = {prog.fns[r].name for r in reached if r in prog.fns}
            need = list(need_all)
            if v != "Global":
                need.append("verify_util")
            missing = [n for n in need if n not in names]
            ctx.ob("R1", "check_rule_with_hint/%s" % v, not missing,
                   "arm %s reaches %s%s" % (v, [n for n in need if n in names], ("; MISSING " + str(missing)) if missing else ""), where=chk.loc())
        ctx.floor("R1", "CheckHint arms", nvar, 3)
    # each helper propagates the error of each check (call dominates Ok, and its error arm does not reach Ok)
    for fname, needs in (("check_vars", ["check_var_in_constraints", "check_var_in_transform", "check_var_in_fix"]),
                         ("check_vars_in_rewriter", ["check_var_in_constraints", "check_var_in_transform", "check_var_in_fix"]),
                         ("check_utils_defined", ["verify_util"])):
        f = ctx.anchor("R1", r"^ast_grep_config::check_var::%s$" % fname)
        if not f:
            continue
        # success exits: `Ok(..)` stored into the return place, or a tail call whose Result is returned as it is
        oks = list(ok_blocks(f, "Ok")) + [c.bb for c in f.calls if c.bb in f.live_blocks and c.dest and c.dest[0] == 0 and not c.dest[1] and c.name != "from_residual"]
        fam_calls = list(f.calls)
        for n in needs:
            cs = [c for c in fam_calls if c.name == n]
            from ..query import must_pass
            good = bool(cs) and bool(oks) and all(any(f.dominates(c.bb, b) or c.bb == b for c in cs) or must_pass(f, [c.bb for c in cs], b) for b in oks)
            ctx.ob("R1", "%s/%s dominates Ok" % (fname, n), good, "call of %s %s every Ok return of %s" % (n, "dominates" if good else "does NOT dominate", fname), where=f.loc())
    # rewriters
    rr = prog.find_fns(r"rule_config::.*register_rewriters$")
    if len(rr) != 1:
        ctx.ob("R1", "register_rewriters anchor", False, "register_rewriters resolved to %d functions" % len(rr))
    else:
        f = rr[0]
        reached = prog.reach([f.id])
        ok = any(prog.fns[r].name == "check_rewriters_in_transform" for r in reached if r in prog.fns)
        ctx.ob("R1", "register_rewriters reaches check_rewriters_in_transform", ok, "rewriter references in transforms are checked", where=f.loc())
    # …and that check looks at the rule AND at every registered rewriter (a rewriter's own transform may name a rewriter too; at run
    # time a missing rewriter is skipped silently), not only at those the rule happens to name
    crt0 = ctx.anchor("R1", r"^ast_grep_config::check_var::check_rewriters_in_transform$")
    if crt0:
        from ..query import iter_chain, closure_consumer, DROPPING_ITER
        crt = prog.inlined(crt0, keep=("check_one_rewriter_in_rule",))
        fam = prog.family(crt)
        per_rule = [(g, c) for g in fam for c in g.calls if c.name == "check_one_rewriter_in_rule" and c.bb in g.live_blocks]
        on_rule = on_all = False
        dropped = []
        for g, c in per_rule:
            if g is crt and any(o.kind == "param" and o.ref == 1 for o in deep_roots(prog, crt, c.args[0], TRANSPARENT)):
                on_rule = True
            recv = None
            if g is not crt:
                cons = closure_consumer(prog, g)
                if cons and cons[0].id in {h.id for h in fam} and cons[1].args:
                    recv, host = cons[1].args[0], cons[0]
            elif crt.in_loop(c.bb):
                recv, host = c.args[0], crt
            if recv is not None:
                ad, lv = iter_chain(prog, host, recv)
                def whole_map(lf, o):
                    def is_map(h, r):
                        return h.id == crt.id and r.kind == "param" and r.ref == 2
                    if is_map(lf, o):
                        return True
                    if o.kind == "param" and any(is_map(h, r) for h, r in ultimate_roots(prog, lf, ["c", [o.ref, list(o.proj)]], TRANSPARENT)):
                        return True
                    return o.kind == "call" and o.ref.name in ("values", "iter", "into_iter", "values_mut", "iter_mut") and o.ref.args and \
                        any(is_map(h, r) for h, r in ultimate_roots(prog, lf, o.ref.args[0], TRANSPARENT))
                if any(whole_map(lf, o) for lf, o in lv):
                    on_all = True
                    dropped += [a.name for _, a in ad if a.name in DROPPING_ITER]
        ctx.ob("R1", "check_rewriters_in_transform/the rule itself is checked", on_rule, "check_one_rewriter_in_rule(rule, rewriters)", where=crt0.loc())
        ctx.ob("R1", "check_rewriters_in_transform/every registered rewriter is checked", on_all and not dropped,
               "check_one_rewriter_in_rule runs over an iteration of the whole `rewriters` map" if on_all and not dropped else
               "the per-rewriter check does not run over every value of the `rewriters` map (%s): a rewriter that names an undefined rewriter is accepted unless the rule's own transform "
               "names it directly, and the dangling reference is skipped silently at run time" % ("iteration passes through %s" % dropped if dropped else "no iteration over the map reaches it"), where=crt0.loc())
    # RuleConfig kind test
    tf = ctx.anchor("R1", r"^ast_grep_config::rule_config::RuleConfig::<L>::try_from$")
    if tf:
        aggs = prog.aggregates_of(r"^ast_grep_config::rule_config::RuleConfig$")
        for f, bi, si_, s in aggs:
            ctx.ob("R1", "RuleConfig constructed in %s" % f.id, f.id == tf.id, "struct literal of RuleConfig", where=f.loc(s[3]))
        ctx.floor("R1", "RuleConfig constructors", len(aggs), 1)
        pk = [c for c in tf.calls if c.name == "potential_kinds"]
        isn = [c for c in tf.calls if c.name == "is_none"]
        good = False
        if pk:
            # any form of the test (`is_none()`, `match`, `let … else`, `?`): the struct literal lies only on the Some side
            from ..query import option_arms
            agg_blocks = {b for f, b, _, _ in aggs if f is tf}
            for c in pk:
                arms = option_arms(tf, c)
                if arms["none"] and arms["some"]:
                    nb = set()
                    for x in arms["none"]:
                        nb |= set(tf.reachable_from(x))
                    sb = set()
                    for x in arms["some"]:
                        sb |= set(tf.reachable_from(x))
                    if agg_blocks and not (agg_blocks & nb) and agg_blocks <= sb:
                        good = True
        if pk and isn and not good:
            # the aggregate block must be on the `false` arm of is_none's switch
            for c in isn:
                if not any(o.kind == "call" and o.ref in pk for o in deep_roots(prog, tf, c.args[0])):
                    continue
                for bi in tf.reachable_from(c.bb):
                    si = tf.switch_info(bi)
                    if si and "true" in si["arms"] and any(o.kind == "call" and o.ref is c for o in tf.trace_operand(si["op"])):
                        tblocks = tf.reachable_from(si["arms"]["true"])
                        agg_blocks = {b for f, b, _, _ in aggs if f is tf}
                        good = bool(agg_blocks) and not (agg_blocks & tblocks) and agg_blocks <= tf.reachable_from(si["arms"]["false"])
        ctx.ob("R1", "RuleConfig::try_from kind test", good, "RuleConfig is built only on the branch where matcher.potential_kinds().is_none() is false", where=tf.loc())


# ------------------------------------------------------------------------------------------------
def resolve_delegate(prog, f, enum_pat, depth=0):
    """the function that actually matches over `self`: f itself, or — when f only wraps it (`fn v(&self, x) { self.v_impl(x, …) }`) — the
    same-type method it forwards `self` to.  Returns (function, [names on the chain])"""
    names = [f.name]
    cur = f
    while depth < 3 and not self_switches(cur, enum_pat):
        nxt = []
        for c in cur.calls:
            if c.bb in cur.live_blocks and c.args and c.args[0][0] != "k" and any(o.kind == "param" and o.ref == 1 and not field_path(o.proj) for o in cur.trace_operand(c.args[0])):
                for t in prog.call_targets(c):
                    g = prog.fns.get(t)
                    if g is not None and g.impl_self == cur.impl_self and not g.impl_trait:
                        nxt.append(g)
        if len(nxt) != 1:
            break
        cur = nxt[0]
        names.append(cur.name)
        depth += 1
    return cur, names


def visits(prog, fn, calls, visitor, want_variant=None, want_field=None):
    vis = {visitor} if isinstance(visitor, str) else set(visitor)
    for c in calls:
        if c.name not in vis or not c.args:
            continue
        for f, o in receiver_roots(prog, c.fn, c.args[0]):
            if f is fn and o.kind == "param" and o.ref == 1:
                if want_variant is not None and want_variant in proj_variants(o.proj):
                    return c
                if want_field is not None and field_path(o.proj)[:1] == [want_field]:
                    return c
    return None


def r2(ctx, reach, bearing):
    prog = ctx.prog
    n = 0
    for adt in sorted(bearing | {"ast_grep_config::rule_core::RuleCore"}):
        if adt.startswith("ast_grep_core::ops::") or adt in BY_NAME:
            continue  # generic combinators are visited through inner() by Rule's arms; by-name refs are leaves
        bf = bearing_fields(prog, adt, bearing)
        is_enum = prog.adts[adt]["kind"] == "Enum"
        for visitor in VISITORS:
            fns = [f for f in prog.fns.values() if f.name == visitor and f.impl_self and head(f.impl_self) == adt and not f.impl_trait]
            if adt.endswith("::RuleCore"):
                # RuleCore: only the rule-carrying data fields; fixer/registration are not variable scopes
                bf = {v: [x for x in fs if x[0] in ("rule", "constraints")] for v, fs in bf.items()}
                if visitor != "defined_vars":
                    continue
            if len(fns) != 1:
                if any(bf.values()):
                    ctx.ob("R2", "%s::%s" % (adt, visitor), False, "type %s contains rules but has %d `%s` visitor(s)" % (adt, len(fns), visitor))
                continue
            fn = fns[0]
            if is_enum:
                sws = self_switches(fn, re.escape(adt))
                if not sws:
                    ctx.ob("R2", "%s::%s/switch" % (adt, visitor), False, "no match over self found", where=fn.loc())
                    continue
                bi, si = sws[0]
                arms = arm_blocks(fn, si)
                for v, fields in sorted(bf.items()):
                    if not fields:
                        continue
                    n += 1
                    payload_heads = sorted({h for _, _, hs in fields for h in hs})
                    calls = calls_in(prog, fn, arms.get(v, set()))
                    hit = visits(prog, fn, calls, visitor, want_variant=v)
                    key = "%s::%s/%s" % (adt, visitor, v)
                    if hit is None and visitor == "defined_vars" and adt == RULE and v == "Matches":
                        # table exception with supporting fact
                        # whatever the collecting function is called: some function of check_var that the variable checks reach calls it
                        sup = any(c.name == "get_local_util_vars" for f in prog.find_fns(r"^ast_grep_config::check_var::") for c in f.calls)
                        ctx.ob("R2", key, sup, "exception: util variables are added by get_local_util_vars in get_vars_from_rules (supporting call %s)" % ("present" if sup else "MISSING"), where=fn.loc())
                        continue
                    if hit is None and any(h in BY_NAME for h in payload_heads) and visitor == "verify_util":
                        pass
                    ctx.ob("R2", key, hit is not None,
                           ("arm %s calls %s on its payload" % (v, hit.best)) if hit else "arm %s (payload %s contains rules) never calls `%s` on the payload: sub-rules are skipped by this visitor" % (v, payload_heads, visitor),
                           where=fn.loc(hit.line if hit else None))
            else:
                calls = calls_in(prog, fn, fn.live_blocks)
                for v, fields in bf.items():
                    for fname, fty, hs in fields:
                        n += 1
                        hit = visits(prog, fn, calls, visitor, want_field=fname)
                        if hit is None and visitor == "defined_vars":
                            ev = field_evals(prog, adt).get(fname, {"less": [], "ful": []})
                            if ev["less"] and not ev["ful"]:
                                ctx.ob("R2", "%s::%s/.%s" % (adt, visitor, fname), True, "field %s is only ever evaluated with a private environment (%s): its variables cannot reach a match, so defined_vars rightly leaves it out" % (fname, sorted(set(ev["less"]))[:2]), where=fn.loc(), nontrivial=False)
                                continue
                        ctx.ob("R2", "%s::%s/.%s" % (adt, visitor, fname), hit is not None,
                               ("calls %s on self.%s" % (hit.best, fname)) if hit else "field %s: %s contains rules but `%s` never visits it" % (fname, fty, visitor),
                               where=fn.loc(hit.line if hit else None))
    ctx.floor("R2", "visitor obligations", n, 40)


# ------------------------------------------------------------------------------------------------
SAME_NODE = {
    # Rule variant -> (reason, SerializableRule field the toposort must descend, supporting-fact checker)
    "All": ("conjunction evaluated on the same node", "all"),
    "Any": ("disjunction evaluated on the same node", "any"),
    "Not": ("negation evaluated on the same node", "not"),
    "Matches": ("reference evaluated on the same node", "matches"),
    "NthChild": ("of_rule is evaluated on parent.children(), a sibling set that contains the node itself", "nth_child"),
}


def r3(ctx, bearing):
    prog = ctx.prog
    cc = ctx.anchor("R3", r"^ast_grep_config::rule::Rule::<L>::check_cyclic$")
    # supporting fact for NthChild: find_index evaluates of_rule over children() of parent()
    fi = prog.find_fns(r"nth_child::NthChild::<L>::find_index$")
    sup_nth = False
    if len(fi) == 1:
        names = {c.name for c in calls_in(prog, fi[0], fi[0].live_blocks)}
        sup_nth = "children" in names and "parent" in names and ("match_node_with_env" in names or "match_node" in names or "matches" in names)
    ctx.ob("R3", "support/NthChild evaluates of_rule on siblings incl. self", sup_nth or len(fi) != 1 and False,
           "NthChild::find_index calls parent(), children() and a matcher on them" if sup_nth else "supporting fact for the NthChild row not found (find_index changed?)", nontrivial=False)
    if cc:
        cc, cc_names = resolve_delegate(prog, cc, re.escape(RULE))
        sws = self_switches(cc, re.escape(RULE))
        if not sws:
            ctx.ob("R3", "check_cyclic/switch", False, "no match over self", where=cc.loc())
        else:
            bi, si = sws[0]
            arms = arm_blocks(cc, si)
            for v, (why, _) in sorted(SAME_NODE.items()):
                calls = calls_in(prog, cc, arms.get(v, set()))
                if v == "Matches":
                    # compares the referenced id with the searched id …
                    hit = any(c.name in ("eq", "ne") for c in calls) or any(True for bi2 in arms.get(v, set()) for s in cc.blocks[bi2]["s"] if s[0] == "A" and s[2][0] == "bin" and s[2][1] in ("Eq", "Ne"))
                    ctx.ob("R3", "check_cyclic/%s" % v, hit, "arm Matches compares the referenced rule id" if hit else "arm Matches does not compare the rule id", where=cc.loc())
                    # … and follows the reference through the registration: the utils of a rule and of all its rewriters are
                    # registered into ONE shared registration (supporting fact below), while the toposort only sees one map
                    reach = set()
                    for c in calls:
                        for t in prog.call_targets(c):
                            reach |= prog.reach([t])
                    names = {prog.fns[r].name for r in reach if r in prog.fns}
                    follows = "eval_local" in names and bool(set(cc_names) & names)
                    # …unconditionally: the follow must not be switched off by a flag parameter of the visitor (a "shallow" mode for
                    # registered utils misses cycles of three or more utils spanning the maps)
                    flags = []
                    for b2 in sorted(arms.get(v, set())):
                        si2 = cc.switch_info(b2)
                        if si2 and "true" in si2["arms"] and si2["op"][0] != "k":
                            if any(o.kind == "param" and cc.locals[o.ref] == "bool" for o in cc.trace_operand(si2["op"])):
                                flags.append(b2)
                    # and the re-entry from the resolved rule goes to the visitor itself with no constant-false flag
                    shallow = []
                    for r in reach:
                        g = prog.fns.get(r)
                        if g is None:
                            continue
                        for c2 in g.calls:
                            if c2.name in cc_names and prog.call_targets(c2) and set(prog.call_targets(c2)) <= {cc.id}:
                                for a in c2.args:
                                    if a[0] == "k" and a[1].get("ty") == "bool" and a[1].get("v") == "false":
                                        shallow.append(g.id)
                    follows = follows and not flags and not shallow
                    rr = prog.find_fns(r"rule_config::.*register_rewriters$")
                    shared = False
                    if len(rr) == 1:
                        gm = [c for g in prog.family(rr[0]) for c in g.calls if c.name == "get_matcher_with_hint"]
                        shared = any(g.in_loop(c.bb) if (g := c.fn) else False for c in gm)
                    ctx.ob("R3", "check_cyclic/Matches follows the reference", follows or not shared,
                           "check_cyclic resolves `matches` through the registration and recurses (register_rewriters inserts several utils maps into one registration: %s)" % shared if follows else
                           "several `utils` maps (rule + each rewriter, in a loop over clones of one env) are registered into one registration, but the cycle check on insertion only compares the id of a direct reference and the toposort looks at one map at a time: a cycle spanning two maps is accepted -> unbounded recursion",
                           where=cc.loc())
                    continue
                hit = visits(prog, cc, calls, cc_names, want_variant=v)
                ctx.ob("R3", "check_cyclic/%s" % v, hit is not None,
                       ("arm %s recurses into its sub-rules" % v) if hit else "Rule::check_cyclic does not descend into %s (%s): a utility can require itself on the same node without being rejected -> unbounded recursion at match time" % (v, why),
                       where=cc.loc())
    # every cycle check starts with a FRESH visited set: "already followed" is only meaningful within one walk from one utility — a set
    # kept across insertions makes a later walk skip a utility whose way back was registered in between (a cycle over two utils maps is
    # then accepted and overflows the stack at match time)
    walkers = prog.find_fns(r"^ast_grep_config::rule::(Rule::<L>::check_cyclic_impl|referent_rule::ReferentRule::<L>::refers_to|nth_child::NthChild::<L>::check_cyclic)$")
    members = set()
    for w in walkers:
        members |= {g.id for g in prog.family(w)}
    n_entry = 0
    for w in walkers:
        for c in prog.call_sites.get(w.id, []):
            f = c.fn
            if f.id in members or (f.root or "") in {x.id for x in walkers} or not c.args or c.bb not in f.live_blocks:
                continue
            n_entry += 1
            roots = deep_roots(prog, f, c.args[-1], TRANSPARENT | {"deref_mut", "as_mut", "borrow_mut"})
            fresh = bool(roots) and all(o.kind == "call" and o.ref.name in ("new", "default", "with_capacity") and "HashSet" in (o.ref.best + f.locals[o.ref.dest[0]]) for o in roots)
            ctx.ob("R3", "cycle check started in %s uses a fresh visited set" % f.id, fresh,
                   "visited = HashSet::new() created for this walk" if fresh else
                   "the visited set handed to the cycle walk comes from %s: utilities followed by an EARLIER check are skipped, so a cycle closed by a utility registered later "
                   "(rule utils + rewriter utils share one registration) is not seen" % sorted({describe_origin(f, o) for o in roots})[:3], where=f.loc(c.line))
    ctx.floor("R3", "entry points of the cycle walk", n_entry, 1)
    vd = ctx.anchor("R3", r"^ast_grep_config::rule::deserialize_env::visit_dependent_rule_ids$")
    if vd:
        # fields of SerializableRule read by the visitor family
        fam = prog.family(vd)
        touched = set()
        for f in fam:
            for b in f.blocks:
                for s in b["s"]:
                    if s[0] == "A":
                        for pl in places_of(s):
                            for p in pl[1]:
                                if p.startswith(".") and "SerializableRule" in p:
                                    touched.add(p[1:].split("|")[0])
                t = b["t"]
                if t[0] == "call":
                    for a in t[2]:
                        if a[0] != "k":
                            for p in a[1][1]:
                                if p.startswith(".") and "SerializableRule" in p:
                                    touched.add(p[1:].split("|")[0])
        for v, (why, field) in sorted(SAME_NODE.items()):
            ctx.ob("R3", "visit_dependent_rule_ids/%s" % field, field in touched,
                   ("toposort visitor reads SerializableRule.%s" % field) if field in touched else "the dependency visitor never looks at SerializableRule.%s (%s): cyclic utilities through it are not detected and registration order ignores it" % (field, why),
                   where=vd.loc())
        visitor_examines_all_fields(ctx, "R3", vd)
    # global utilities: a RuleCore is matched on one node through its rule, its constraints (a constraint on a variable bound to
    # the node itself) and its local utils; the dependency visitor of global utils must look at all of them
    gv = prog.find_fns(r"^<\(L, ast_grep_config::rule_core::SerializableRuleCore\) as ast_grep_config::rule::deserialize_env::DependentRule>::visit_dependency$")
    core_adt = prog.adts.get("ast_grep_config::rule_core::SerializableRuleCore")
    if len(gv) != 1 or core_adt is None:
        ctx.ob("R3", "global util dependency visitor anchor", False, "visitor or SerializableRuleCore not found (%d)" % len(gv))
    else:
        same_node_fields = [f["name"] for f in core_adt["variants"][0]["fields"] if "SerializableRule" in f["ty"] and "Transformation" not in f["ty"]]
        touched = set()
        for f in prog.family(gv[0]):
            for b in f.blocks:
                for st in b["s"]:
                    if st[0] == "A":
                        for pl in places_of(st):
                            for p_ in pl[1]:
                                if p_.startswith(".") and "SerializableRuleCore" in p_:
                                    touched.add(p_[1:].split("|")[0])
                t = b["t"]
                if t[0] == "call":
                    for a in t[2]:
                        if a[0] != "k":
                            for p_ in a[1][1]:
                                if p_.startswith(".") and "SerializableRuleCore" in p_:
                                    touched.add(p_[1:].split("|")[0])
        for fld in same_node_fields:
            ctx.ob("R3", "global util visitor/%s" % fld, fld in touched,
                   ("the toposort of global utils follows references inside SerializableRuleCore.%s" % fld) if fld in touched else
                   "global utility rules are sorted/checked for cycles by looking at `rule` only; references inside `%s` are evaluated on the same node at match time, so a global util that reaches itself through its %s is accepted and recurses without bound" % (fld, fld),
                   where=gv[0].loc())
        ctx.floor("R3", "same-node fields of SerializableRuleCore", len(same_node_fields), 3)
    # transformations: visit_dependency passes used_vars() to sorter.visit; source() exhaustive
    tv = prog.find_fns(r"<ast_grep_config::transform::transformation::Transformation<.*> as ast_grep_config::rule::deserialize_env::DependentRule>::visit_dependency$")
    if len(tv) != 1:
        ctx.ob("R3", "Transformation::visit_dependency anchor", False, "resolved to %d functions" % len(tv))
    else:
        f = tv[0]
        uv = [c for c in f.calls if c.name == "used_vars"]
        vs = [c for c in f.calls if c.name == "visit"]
        ok = bool(uv) and bool(vs) and any(any(o.kind == "call" and o.ref in uv for o in deep_roots(prog, f, c.args[1])) for c in vs)
        ctx.ob("R3", "Transformation::visit_dependency", ok, "sorter.visit receives the variable returned by used_vars()", where=f.loc())
        # …for EVERY variant: no path from entry to a return avoids the visit (the sort is the only detector of cyclic
        # transformations: check_var_in_transform defines all keys before it looks at the sources)
        from ..query import path_avoiding
        skip = bool(vs) and path_avoiding(f, 0, [c.bb for c in vs], list(f.return_blocks()))
        ctx.ob("R3", "Transformation::visit_dependency visits on every path", bool(vs) and not skip,
               "every path through visit_dependency reports the source variable to the sorter" if vs and not skip else
               "some transformation (a branch on the variant) returns without reporting its source variable to the sorter: a dependency cycle through it is accepted "
               "and the order of application ignores it", where=f.loc())
    # transformations (and utils) are applied/registered in the order get_order returns: it must be the post-order vector
    from . import c13
    from ..core import Ctx
    sub = Ctx("C13", ctx.tier, prog)
    c13.r2(sub)
    for o in sub.obligations:
        if "get_order returns" in o["key"] or "post-order" in o["key"] or "Transform::deserialize builds" in o["key"]:
            ctx.ob("R3", o["key"].split(":", 1)[1], o["ok"], o["detail"], where=o["where"])
    src = prog.find_fns(r"transformation::Transformation::<T>::source$|transformation::Transformation::<.*>::source$")
    tadt = prog.adts.get("ast_grep_config::transform::transformation::Transformation")
    if tadt and src:
        f = src[0]
        sws = self_switches(f, r"Transformation")
        variants = [v["name"] for v in tadt["variants"]]
        if sws:
            bi, si = sws[0]
            distinct = {si["arms"][v] for v in variants if v in si["arms"]}
            ctx.ob("R3", "Transformation::source exhaustive", len(distinct) == len(variants),
                   "source() has a distinct arm for each of %s" % variants if len(distinct) == len(variants) else "source() shares/wildcards arms over %s" % variants, where=f.loc())
        else:
            ctx.ob("R3", "Transformation::source exhaustive", False, "no match over self", where=f.loc())


def places_of(s):
    out = [s[1]]
    rv = s[2]
    if rv[0] in ("ref", "ptr"):
        out.append(rv[2])
    elif rv[0] in ("cfd", "discr"):
        out.append(rv[1])
    elif rv[0] == "use" and rv[1][0] != "k":
        out.append(rv[1][1])
    return out


# ------------------------------------------------------------------------------------------------
def r4(ctx):
    prog = ctx.prog
    parse = ctx.anchor("R4", r"^ast_grep_config::fixer::Fixer::<L>::parse$")
    if not parse:
        return
    TRY_NEW = "ast_grep_core::replacer::template::TemplateFix::try_new"
    WITH_T = "ast_grep_core::replacer::template::TemplateFix::with_transform"

    def transform_params(f):
        return [i for i in range(1, f.nargs + 1) if "Transformation" in f.locals[i] and "HashMap" in f.locals[i]]

    seen = set()
    n = 0

    def walk(f, path):
        nonlocal n
        if f.id in seen:
            return
        seen.add(f.id)
        tps = transform_params(f)
        for c in f.calls:
            if c.best == TRY_NEW:
                n += 1
                # must be control dependent on the None arm of a switch over the transform parameter
                guarded = False
                for bi, si in [(b, f.switch_info(b)) for b in sorted(f.live_blocks)]:
                    if not si or not si.get("enum") or "Option" not in si["enum"]:
                        continue
                    roots = f.trace_place(si["place"])
                    if any(o.kind == "param" and o.ref in tps for o in roots):
                        none_b = arm_blocks(f, si).get("None", set())
                        if c.bb in none_b:
                            guarded = True
                key = "%s: TemplateFix::try_new" % " -> ".join(p.name for p in path + [f])
                ctx.ob("R4", key, guarded,
                       "template built WITHOUT transformation names %s" % ("only when the transform map is None" if guarded else
                                                                         "although Fixer::parse holds the rule's transform map on this path%s: transformed variables in the fix are treated as plain captures and render empty" % ("" if tps else " (the callee does not even receive it)")),
                       where=f.loc(c.line))
            elif c.best == WITH_T:
                n += 1
                roots = deep_roots(prog, f, c.args[2], TRANSPARENT | {"keys", "collect", "cloned", "map"})
                ok = any(o.kind == "param" and o.ref in tps for o in roots)
                ctx.ob("R4", "%s: TemplateFix::with_transform" % " -> ".join(p.name for p in path + [f]), ok,
                       "names passed to with_transform come from %s" % "; ".join(describe_origin(f, o) for o in roots), where=f.loc(c.line))
            else:
                for t in prog.call_targets(c):
                    g = prog.fns[t]
                    if g.id.startswith("ast_grep_config::fixer::") and not g.is_closure:
                        # transform must be forwarded when the callee builds a template
                        walk(g, path + [f])
        for g in prog.closures_of(f, recursive=False):
            walk(g, path + [f])

    walk(parse, [])
    ctx.floor("R4", "template constructions under Fixer::parse", n, 2)  # one try_new and one with_transform at least (a shared helper de-duplicates them)
    # the names are produced from a HashMap in arbitrary order: the template scanner must treat them as a set
    from . import c13
    ok, msg = c13.GUARDS["transform_names_used_as_set"](ctx)
    ctx.ob("R4", "template scanner treats transform names as a set", ok, msg)
    # all callers of Fixer::parse / with_transform hand over the rule's own transform field
    for c in prog.who_calls(r"^ast_grep_config::fixer::Fixer::<L>::(parse|with_transform)$"):
        if c.fn.id.startswith("ast_grep_config::fixer::"):
            continue
        roots = deep_roots(prog, c.fn, c.args[2])
        ok = any(o.kind == "param" and "transform" in field_path(o.proj) for o in roots)
        ctx.ob("R4", "caller %s -> %s" % (c.fn.id, c.name), ok, "transform argument is %s" % "; ".join(describe_origin(c.fn, o) for o in roots), where=c.fn.loc(c.line))


# ------------------------------------------------------------------------------------------------
def r5(ctx):
    prog = ctx.prog
    sf = ctx.anchor("R5", r"^ast_grep_core::replacer::split_first_meta_var$")
    em = ctx.anchor("R5", r"^ast_grep_core::meta_var::extract_meta_var$")
    if not (sf and em):
        return
    for f in (sf, em):
        names = {prog.fns[r].name for r in prog.reach([f.id]) if r in prog.fns}
        ok = "is_valid_meta_var_char" in names
        ctx.ob("R5", "%s uses is_valid_meta_var_char" % f.name, ok, "%s reaches the shared character class is_valid_meta_var_char: %s" % (f.name, ok), where=f.loc())
    # pattern-side first-character rule is part of the same module-level class
    ok = "is_valid_first_char" in {prog.fns[r].name for r in prog.reach([em.id]) if r in prog.fns}
    ctx.ob("R5", "extract_meta_var uses is_valid_first_char", ok, "pattern recogniser reaches is_valid_first_char: %s" % ok, where=em.loc())
    # the set that is checked is the whole set of template variables: Fixer::used_vars hands on TemplateFix::used_vars unfiltered
    # (expandStart/expandEnd rules are matched into a scratch env that is discarded: what they bind never reaches the template)
    fu = ctx.anchor("R5", r"^ast_grep_config::fixer::Fixer::<L>::used_vars$")
    if fu:
        from ..query import value_sources
        shrink = sorted({c.name for g in prog.family(fu) for c in g.calls if c.bb in g.live_blocks and c.name in (
            "remove", "retain", "difference", "filter", "drain", "clear", "take", "extract_if", "intersection", "symmetric_difference", "filter_map", "skip", "skip_while", "take_while")})
        rets = []
        for bi in sorted(fu.live_blocks):
            c = fu.call_at(bi)
            if c is not None and c.dest and c.dest[0] == 0 and not c.dest[1]:
                rets.append(c.best)
            for st in fu.blocks[bi]["s"]:
                if st[0] == "A" and st[1][0] == 0 and not st[1][1] and st[2][0] == "use" and st[2][1][0] != "k":
                    rets += [o.ref.best if o.kind == "call" else describe_origin(fu, o) for o in deep_roots(prog, fu, st[2][1])]
        ok = not shrink and bool(rets) and all(r.endswith("TemplateFix::used_vars") for r in rets)
        ctx.ob("R5", "Fixer::used_vars is the template's full variable set", ok,
               "returns TemplateFix::used_vars() as is" if ok else
               "Fixer::used_vars returns %s after %s: a template variable removed here is never checked, so a fix variable nothing defines is accepted and substituted by the empty string" % (sorted(set(rets)), shrink or "a rewrite"),
               where=fu.loc())
    # check_var_in_fix compares template names with defined names: both plain ids (no sigil)
    cf = ctx.anchor("R5", r"^ast_grep_config::check_var::check_var_in_fix$")
    if cf:
        uv = [c for g in prog.family(cf) for c in g.calls if c.name == "used_vars"]
        ct = [c for g in prog.family(cf) for c in g.calls if c.name == "contains"]
        ctx.ob("R5", "check_var_in_fix compares used_vars() against the defined set", bool(uv) and bool(ct),
               "check_var_in_fix calls Fixer::used_vars and HashSet::contains", where=cf.loc())


def visitor_examines_all_fields(ctx, rid, vd):
    """every successful return of the dependency visitor has examined every same-node field: the `Maybe` test of each field
    dominates every block that assigns `_0 = Ok(..)` (an early `return Ok(())` inside one field's arm skips the siblings)"""
    from ..query import self_switches, assigns_ret_variant
    sw = {}
    for bi, si in self_switches(vd, r"Maybe", param=1):
        for o in vd.trace_place(si["place"]):
            if o.kind == "param" and o.ref == 1:
                fp = field_path(o.proj)
                if fp:
                    sw.setdefault(fp[0], bi)
    oks = assigns_ret_variant(vd, vd.live_blocks, "Ok")
    ctx.ob(rid, "visit_dependent_rule_ids/success exits found", bool(oks), "%d block(s) assign Ok" % len(oks), where=vd.loc(), nontrivial=False)
    for v, (why, field) in sorted(SAME_NODE.items()):
        bi = sw.get(field)
        if bi is None:
            ctx.ob(rid, "visit_dependent_rule_ids/%s examined before success" % field, False, "no Maybe test of SerializableRule.%s found in the visitor" % field, where=vd.loc())
            continue
        early = [b for b in oks if not vd.dominates(bi, b)]
        ctx.ob(rid, "visit_dependent_rule_ids/%s examined before success" % field, not early,
               "the test of `%s` dominates every Ok return" % field if not early else
               "the visitor can return Ok (bb%s) without having looked at `%s` (%s): dependencies through it are missing from the order, so utilities are registered "
               "in hash-map order and cyclic ones are not detected" % (early, field, why), where=vd.loc())


ENVLESS = {"matches", "find", "find_all", "match_node", "find_node", "inside", "has", "precedes", "follows"}
ENVFUL = {"match_node_with_env", "do_match", "match_and_add_label"}


def field_evals(prog, adt, _stack=()):
    """field (struct) or variant (enum) of a rule-bearing type -> {'less': [sites], 'ful': [sites]}: where its sub-rule is evaluated
    through the env-less API (Node::find/matches, MatcherExt::match_node…) resp. with an environment; a field handed to a method of
    its own rule-bearing type (self.stop_by.find(..)) inherits that type's evaluations"""
    _FE = prog.__dict__.setdefault("_c12_field_evals", {})  # per-program memo
    key_ = adt
    if key_ in _FE:
        return _FE[key_]
    if adt in _stack:
        return {}
    is_enum = prog.adts[adt]["kind"] == "Enum"
    methods = [f for f in prog.fns.values() if not f.is_closure and f.impl_self and head(f.impl_self) == adt and f.crate == "ast_grep_config"]
    evals = {}  # key (variant-or-field) -> {"less": [sites], "ful": [sites]}
    for m in methods:
        if m.name in VISITORS or m.name in ("check_cyclic", "potential_kinds", "try_from", "new", "fmt", "clone"):
            continue
        for g in prog.family(m):
            for c in g.calls:
                if c.bb not in g.live_blocks:
                    continue
                kind = "less" if c.name in ENVLESS else ("ful" if c.name in ENVFUL else None)
                # a method of the field's own rule-bearing type
                if c.args and c.args[0][0] != "k":
                    for t in prog.call_targets(c):
                        h = prog.fns.get(t)
                        if h is None or not h.impl_self or h.impl_trait or h.crate != "ast_grep_config" or h.name in VISITORS:
                            continue
                        adt2 = head(h.impl_self)
                        if adt2 == adt or adt2 not in prog.adts:
                            continue
                        keys = set()
                        for ff, o in ultimate_roots(prog, g, c.args[0], TRANSPARENT | {"deref", "inner"}):
                            if ff is m and o.kind == "param" and o.ref == 1:
                                keys |= set(proj_variants(o.proj) if is_enum else field_path(o.proj)[:1])
                        if keys:
                            sub = field_evals(prog, adt2, _stack + (adt,))
                            for k in keys:
                                for ev2 in sub.values():
                                    for kk in ("less", "ful"):
                                        evals.setdefault(k, {"less": [], "ful": []})[kk] += ["%s [in %s]" % (x, adt2.split("::")[-1]) for x in ev2[kk]]
                            kind = None
                if kind is None and c.args:
                    # a helper that is handed the sub-rule (`inclusive_until(stop)`): look at what it does with that parameter
                    tg = [t for t in prog.call_targets(c) if t in prog.fns and prog.fns[t].crate == "ast_grep_config" and not prog.fns[t].impl_trait]
                    if len(tg) == 1 and tg[0] != m.id:
                        h = prog.fns[tg[0]]
                        for i, a in enumerate(c.args):
                            if a[0] == "k":
                                continue
                            keys = set()
                            for ff, o in ultimate_roots(prog, g, a, TRANSPARENT | {"deref", "inner"}):
                                if ff is m and o.kind == "param" and o.ref == 1:
                                    keys |= set(proj_variants(o.proj) if is_enum else field_path(o.proj)[:1])
                            if not keys:
                                continue
                            for hg in prog.family(h):
                                for c2 in hg.calls:
                                    k2 = "less" if c2.name in ENVLESS else ("ful" if c2.name in ENVFUL else None)
                                    if k2 is None or not c2.args or c2.bb not in hg.live_blocks:
                                        continue
                                    tr2 = c2.callee.get("trait") or ""
                                    cand2 = [c2.args[0]] if (c2.name in ENVFUL or tr2.endswith("::Matcher") or tr2.endswith("::MatcherExt")) else c2.args[1:2]
                                    for a2 in cand2:
                                        if a2[0] != "k" and any(f3 is h and o3.kind == "param" and o3.ref == i + 1 for f3, o3 in ultimate_roots(prog, hg, a2, TRANSPARENT | {"deref", "inner"})):
                                            for k in keys:
                                                evals.setdefault(k, {"less": [], "ful": []})[k2].append("%s (%s via %s L%d)" % (c2.name, m.name, h.name, c2.line))
                if kind is None or not c.args:
                    continue
                tr = c.callee.get("trait") or ""
                if c.name in ENVFUL or tr.endswith("::Matcher") or tr.endswith("::MatcherExt"):
                    cand = [c.args[0]]
                else:
                    cand = c.args[1:2]
                for a in cand:
                    if a[0] == "k":
                        continue
                    for ff, o in ultimate_roots(prog, g, a, TRANSPARENT | {"deref", "inner"}):
                        if ff is m and o.kind == "param" and o.ref == 1:
                            keys = proj_variants(o.proj) if is_enum else field_path(o.proj)[:1]
                            for k in keys:
                                evals.setdefault(k, {"less": [], "ful": []})[kind].append("%s (%s L%d)" % (c.name, m.name, c.line))
                                # does this evaluation write into the environment the caller handed to match_node_with_env (not a scratch copy)?
                                if kind == "ful" and m.name == "match_node_with_env" and len(c.args) >= 3 and c.args[-1][0] != "k":
                                    own = any(f3 is m and o3.kind == "param" and o3.ref == m.nargs for f3, o3 in
                                              ultimate_roots(prog, g, c.args[-1], (TRANSPARENT | {"deref", "deref_mut", "as_mut", "borrow_mut", "to_mut"}) - {"clone", "cloned", "to_owned"}))
                                    if own:
                                        evals[k].setdefault("own", []).append("%s (%s L%d)" % (c.name, m.name, c.line))
    _FE[key_] = evals
    return evals


def r6(ctx, bearing):
    """converse clause: a variable the checker accepts must be able to reach the match.  defined_vars() of a rule type declares the
    variables of its sub-rule fields; a field evaluated through Node::find / Node::matches / MatcherExt::match_node gets a private
    environment whose bindings are dropped, so such a field must not be declared (and a declared field must not be evaluated so)."""
    prog = ctx.prog
    n = 0
    for adt in sorted(bearing):
        if adt.startswith("ast_grep_core::") or adt in BY_NAME or adt not in prog.adts:
            continue
        is_enum = prog.adts[adt]["kind"] == "Enum"
        if adt == RULE:
            continue  # Rule only dispatches to its payloads
        bf = bearing_fields(prog, adt, bearing)
        methods = [f for f in prog.fns.values() if not f.is_closure and f.impl_self and head(f.impl_self) == adt and f.crate == "ast_grep_config"]
        dv = [f for f in methods if f.name == "defined_vars" and not f.impl_trait]
        if len(dv) != 1:
            continue
        dvf = dv[0]
        dcalls = calls_in(prog, dvf, dvf.live_blocks)
        evals = field_evals(prog, adt)
        for v, fields in sorted(bf.items()):
            items = [(v, None)] if is_enum else [(fname, fty) for fname, fty, hs in fields]
            if is_enum and not fields:
                continue
            for key, fty in items:
                declared = visits(prog, dvf, dcalls, "defined_vars", want_variant=key) if is_enum else visits(prog, dvf, dcalls, "defined_vars", want_field=key)
                ev = evals.get(key, {"less": [], "ful": []})
                if not ev["less"] and not ev["ful"]:
                    continue
                n += 1
                bad = declared is not None and ev["less"]
                ctx.ob("R6", "%s.%s declared by defined_vars => evaluated with the caller's environment" % (adt, key), not bad,
                       ("declared=%s; evaluated with env at %d site(s), env-less at %d" % (declared is not None, len(ev["ful"]), len(ev["less"]))) if not bad else
                       "defined_vars() declares the variables of `%s`, but %s evaluates it through the env-less API (%s): those variables are accepted in fix/transform/constraints "
                       "and can never be captured — the fix substitutes an empty string (and repeated occurrences are not compared)" % (key, adt.split("::")[-1], sorted(set(ev["less"]))[:3]),
                       where=dvf.loc())
                # the declared variables can only reach the result if SOME evaluation of the field writes into the caller's environment:
                # evaluating the sub-rule only on scratch environments (sibling scans, candidate searches) binds nothing
                if declared is not None and not ev["less"] and ev["ful"]:
                    has_own = bool(ev.get("own"))
                    ctx.ob("R6", "%s.%s declared by defined_vars => some evaluation binds into the caller's environment" % (adt, key), has_own,
                           "evaluated with the caller's own env at %s" % ev.get("own", [])[:2] if has_own else
                           "defined_vars() declares the variables of `%s`, but every evaluation of it in match_node_with_env runs on a scratch environment (%s): the variables are accepted in "
                           "fix/transform/constraints and are never bound — they expand to the empty string" % (key, sorted(set(ev["ful"]))[:3]), where=dvf.loc())
    ctx.floor("R6", "evaluated rule-bearing fields", n, 6)
