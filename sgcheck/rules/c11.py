"""C11 — no YAML crashes ast-grep: panic-site audit, regex-at-load rule, recursion audit."""
import json
import os
import re
from ..query import deep_roots, ultimate_roots, describe_origin, option_arms, assigns_ret_variant, field_path, TRANSPARENT, calls_in
from ..facts import AnchorError
from ..query import closure_consumer

HERE = os.path.dirname(os.path.dirname(os.path.dirname(os.path.abspath(__file__))))
TABLE = os.path.join(HERE, "tables", "panic_sites.json")
RECURSION = os.path.join(HERE, "tables", "recursion.json")

EXPLANATION = (
    "Decided: every construct that can panic — MIR Assert terminators (overflow, bounds, division) and calls resolved to "
    "the panicking-API list (unwrap/expect, panic!/unreachable!, Index on str/slice/Vec/HashMap, slicing, Vec::drain/remove/…, "
    "integer operator traits, RefCell borrows) — in workspace code reachable over the resolved call graph from the "
    "configuration-loading and scanning entry points is listed in the reviewed table with a verdict (SAFE + invariant, some "
    "with machine-checked guards; STARTUP-ONLY; FINDING) or reported: R1. R2: every regex compiled from a deserialised string "
    "is compiled on the load path with its error returned. R3: every recursive cycle (SCC) of the reachable call graph has a "
    "stated decreasing measure; the 'acyclic references' measure is tied to the cycle visitors (C12-R3). R4: panic sites "
    "reachable from walker-thread producers are non-termination (the consumer blocks forever), reported with R1 findings."
)
NOT_DECIDED = (
    "Termination and panic-freedom of dependencies (serde_yaml, regex, tree-sitter, globset); hangs other than the "
    "panic-on-worker-thread kind; stack depth of the bounded recursions (serde_yaml caps nesting at 128)."
)
TRUSTED = ["reviewed verdicts in tables/panic_sites.json and tables/recursion.json (each row states its invariant)",
           "call graph over-approximates unresolved trait calls by all workspace impls",
           "dependencies do not panic or hang", "overflow checks on (dev profile): release builds wrap instead of panicking for + - *"]

CRATES = ("ast_grep_core", "ast_grep_config", "ast_grep", "ast_grep_language", "ast_grep_dynamic")

LOAD_ROOTS = [
    r"^ast_grep_config::from_str$", r"^ast_grep_config::from_yaml_string$",
    r"^ast_grep_config::rule_config::RuleConfig::<L>::(try_from|deserialize)$",
    r"^ast_grep_config::rule::deserialize_env::DeserializeEnv::<L>::(with_utils|parse_global_utils)$",
    r"^ast_grep_config::rule_core::SerializableRuleCore::get_matcher",
    r"^ast_grep::config::", r"^ast_grep::verify::", r"^ast_grep::lsp::",
    r"^ast_grep_config::rule_collection::RuleCollection::<L>::",
]
SCAN_ROOTS = [
    r"^ast_grep_config::combined::CombinedScan::<'r, L>::(new|scan)$",
    r"^ast_grep_config::rule_config::RuleConfig::<L>::get_message$",
    r"^ast_grep_config::transform::Transform::apply_transform$",
    r"^ast_grep_config::fixer::Fixer::",
]

PANIC_API = re.compile(
    r"^core::option::Option::<T>::(unwrap|expect|unwrap_unchecked)$"
    r"|^core::result::Result::<T, E>::(unwrap|expect|unwrap_err|expect_err|unwrap_unchecked)$"
    r"|^core::panicking::(panic|panic_fmt|panic_display|panic_explicit|unreachable_display|assert_failed|panic_nounwind)\b"
    r"|^std::rt::begin_panic|^core::option::(unwrap|expect)_failed|^core::result::unwrap_failed"
    r"|::index$|::index_mut$"
    r"|^core::str::<impl str>::(split_at|split_at_mut)$"
    r"|^alloc::vec::Vec::<T, A>::(remove|insert|drain|splice|swap_remove|split_off)$"
    r"|^core::slice::<impl \[T\]>::(split_at|split_at_mut|copy_from_slice|clone_from_slice|swap|chunks|chunks_exact|windows|rotate_left|rotate_right)$"
    r"|^core::cell::RefCell::<T>::(borrow|borrow_mut)$"
    r"|^alloc::string::String::(remove|insert|insert_str|drain|replace_range|split_off)$"
    r"|^<[iu](8|16|32|64|128|size) as core::ops::arith::(Add|Sub|Mul|Div|Rem|Neg|AddAssign|SubAssign|MulAssign|DivAssign|RemAssign)(<.*>)?>::\w+$"
    r"|^<&[iu](8|16|32|64|128|size) as core::ops::arith::(Add|Sub|Mul|Div|Rem|Neg)(<.*>)?>::\w+$"
    r"|^core::num::<impl [iu]\w+>::(pow|abs|div_euclid|rem_euclid|next_power_of_two|ilog\w*)$"
    r"|^core::iter::traits::iterator::Iterator::step_by$"
    r"|^core::char::methods::<impl char>::(from_digit|to_digit)$"
    r"|^std::sync::\w+::\w+::<T>::(lock|read|write)$.*unwrap"
    r"|^core::str::converts::from_utf8_unchecked$"
)


def roots(prog, pats):
    out = set()
    for r in pats:
        for f in prog.find_fns(r):
            out.add(f.id)
    return out


WORKER_TRAITS = ("ast_grep::utils::worker::PathWorker", "ast_grep::utils::worker::StdInWorker", "ast_grep::utils::worker::Worker")


def scan_roots(prog):
    out = roots(prog, SCAN_ROOTS)
    for i in prog.impls:
        if i.get("trait") in ("ast_grep_core::matcher::Matcher", "ast_grep_core::replacer::Replacer") + WORKER_TRAITS:
            for it in i["items"]:
                out.add(it["id"])
    return out


def strip_lines(s):
    return re.sub(r" \(L\d+\)", "", s)


def op_desc(prog, fn, op):
    if op[0] == "k":
        return "const " + str(op[1].get("v", op[1].get("fn", "?")))[:40]
    ds = []
    for f, o in ultimate_roots(prog, fn, op):
        d = strip_lines(describe_origin(f, o))
        d = re.sub(r"local _\d+", "local", d)
        ds.append(d)
    return " | ".join(sorted(set(ds)))[:160] or "?"


def site_list(prog, reach):
    """enumerate panic sites: list of dicts with a line-free key"""
    sites = []
    for fid in sorted(reach):
        f = prog.fns[fid]
        per_key = {}
        for bi in sorted(f.live_blocks):
            b = f.blocks[bi]
            if b["c"]:
                continue
            t = b["t"]
            site = None
            if t[0] == "assert" and t[1] not in ("resumed", "misaligned", "nullptr", "invalid_enum"):
                ops = [op_desc(prog, f, o) for o in t[6]]
                site = {"kind": "assert:" + t[1], "desc": " , ".join(ops), "line": t[7], "exp": t[8], "ops": t[6]}
            elif t[0] == "call":
                c = f.call_at(bi)
                if PANIC_API.search(c.best):
                    ops = [op_desc(prog, f, o) for o in c.args[:2]]
                    site = {"kind": "call:" + c.best, "desc": " , ".join(ops), "line": c.line, "exp": c.exp, "call": c}
            if site is None:
                continue
            base = "%s | %s | %s" % (fid, site["kind"], site["desc"])
            n = per_key.get(base, 0)
            per_key[base] = n + 1
            site["key"] = base + (" #%d" % n if n else "")
            site["fn"] = f
            site["bb"] = bi
            sites.append(site)
    return sites


def auto_discharge(prog, s):
    f = s["fn"]
    k = s["kind"]
    # derive / macro generated formatting and serialisation code
    if f.impl_trait in ("core::fmt::Debug", "core::fmt::Display", "serde::ser::Serialize", "serde::de::Deserialize", "core::clone::Clone",
                        "schemars::JsonSchema", "core::cmp::PartialEq", "core::hash::Hash", "clap_builder::derive::Args", "clap_builder::derive::FromArgMatches"):
        return "derive/formatting impl of %s (no user-controlled indices)" % f.impl_trait
    if k.startswith("assert:"):
        if all(o[0] == "k" for o in s["ops"]):
            return "both operands constant"
    if k in ("assert:overflow_Add", "assert:overflow_Mul") and len(s["ops"]) == 2:
        ba, bb = _upper_bound(prog, f, s["ops"][0]), _upper_bound(prog, f, s["ops"][1])
        if ba is not None and bb is not None and max(ba, bb) <= 1 << 20:
            return "both operands have small static upper bounds (%d, %d): constants, char::len_utf8 (<= 4), count() after take(k)" % (ba, bb)
    if k == "assert:overflow_Add" and len(s["ops"]) == 2:
        for a, b in ((s["ops"][0], s["ops"][1]), (s["ops"][1], s["ops"][0])):
            kb = _upper_bound(prog, f, b)
            if kb is not None and kb <= 1 << 20 and a[0] != "k":
                os_ = f.trace_operand(a)
                if os_ and all(o.kind == "call" and (o.ref.name in ("len", "count", "position", "rposition", "capacity") or
                                                     (o.ref.name == "next" and re.search(r"bit_set::Iter|iter::adapters::enumerate::Enumerate", o.ref.best))) for o in os_):
                    return "index/size of an in-memory collection (%s) plus a constant <= %d: bounded by the address space" % (sorted({o.ref.name for o in os_}), kb)
    if k == "assert:overflow_Sub" and len(s["ops"]) == 2:
        g = _dominating_le(f, s["bb"], s["ops"][1], s["ops"][0])
        if g:
            return "x - y with y <= x established by the dominating comparison in bb%d" % g
    if k.startswith("call:core::option::Option::<T>::") or k.startswith("call:core::result::Result::<T, E>::"):
        c = s["call"]
        # directly on an aggregate Some/Ok or on a workspace call that only returns Some/Ok
        for o in f.trace_operand(c.args[0]):
            if o.kind == "agg" and o.ref[2][1].get("variant") in ("Some", "Ok"):
                return "unwrap of a value constructed as Some/Ok in the same function"
            if o.kind == "call":
                for t in prog.call_targets(o.ref):
                    g = prog.fns[t]
                    if only_returns(g, ("Some", "Ok")):
                        return "callee %s returns Some/Ok on every path" % g.id
    return None


def _upper_bound(prog, f, op, depth=0):
    """a static upper bound of an unsigned operand, or None: literal constants, char::len_utf8() <= 4, Iterator::count() of a
    pipeline that went through take(k) with a literal k, and sums/products of such values"""
    if depth > 6:
        return None
    if op[0] == "k":
        m = re.match(r"^(\d+)_[ui](8|16|32|64|128|size)$", str(op[1].get("v", "")))
        return int(m.group(1)) if m else None
    best = None
    from ..query import iter_chain
    for o in f.trace_operand(op):
        b = None
        if o.kind == "const":
            m = re.match(r"^(\d+)_[ui](8|16|32|64|128|size)$", str(o.ref.get("v", "")))
            b = int(m.group(1)) if m else None
        elif o.kind == "call" and o.ref.name == "len_utf8":
            b = 4
        elif o.kind == "call" and o.ref.name == "count" and o.ref.args:
            ad, _ = iter_chain(prog, f, o.ref.args[0])
            ks = []
            for ff, c in ad:
                if c.name == "take" and len(c.args) > 1:
                    kb = _upper_bound(prog, ff, c.args[1], depth + 1)
                    if kb is not None:
                        ks.append(kb)
            b = min(ks) if ks else None
        elif o.kind == "op" and o.ref[2][0] in ("bin", "checked") and o.ref[2][1] in ("Add", "Mul", "AddWithOverflow", "MulWithOverflow"):
            x, y = _upper_bound(prog, f, o.ref[2][2], depth + 1), _upper_bound(prog, f, o.ref[2][3], depth + 1)
            if x is not None and y is not None:
                b = x + y if o.ref[2][1].startswith("Add") else x * y
        if b is None:
            return None
        best = b if best is None else max(best, b)
    return best


def _src_local(f, op):
    """the local an operand is a (chain of) plain copy of: follows `_a = copy/move _b` and `_a = _b as T` while _a has that single definition"""
    if op[0] == "k" or op[1][1]:
        return None
    l = op[1][0]
    for _ in range(12):
        ds = [d for d in f.defs.get(l, []) if d[0] != "assign" or d[1] in f.live_blocks]
        if len(ds) == 1 and ds[0][0] == "assign" and not ds[0][4]:
            rv = ds[0][3]
            src = rv[1] if rv[0] == "use" else (rv[2] if rv[0] == "cast" and len(rv) > 2 else None)
            if src and src[0] in ("c", "m") and not src[1][1]:
                l = src[1][0]
                continue
        break
    return ("local", l)


def _ident(f, op):
    """identity of an operand as a single origin (call result / parameter), or None when ambiguous"""
    if op[0] == "k":
        return ("k", op[1].get("v"))
    os_ = f.trace_operand(op)
    ids = set()
    for o in os_:
        if o.kind == "call":
            ids.add(("call", o.ref.bb, tuple(o.proj)))
        elif o.kind == "param":
            ids.add(("param", o.ref, tuple(o.proj)))
        else:
            return None
    return next(iter(ids)) if len(ids) == 1 else None


def _dominating_le(f, site_bb, small, big):
    """block of a comparison that establishes small <= big on every path to site_bb (the site is dominated by the arm of a
    switch on `small > big` / `big < small` (false arm) or `small <= big` / `big >= small` (true arm), that arm's target having
    the switch as its only predecessor)"""
    a, b = _ident(f, small), _ident(f, big)
    if a is None or b is None:
        return None
    for bi in sorted(f.live_blocks):
        si = f.switch_info(bi)
        if not si or "true" not in si["arms"] or si["op"][0] == "k":
            continue
        d = si.get("bool_def")
        if not d or d[0] != "bin" or d[1] not in ("Gt", "Lt", "Ge", "Le"):
            continue
        l, r = _ident(f, d[2]), _ident(f, d[3])
        arm = None
        if d[1] == "Gt" and (l, r) == (a, b):
            arm = "false"
        elif d[1] == "Lt" and (l, r) == (b, a):
            arm = "false"
        elif d[1] == "Le" and (l, r) == (a, b):
            arm = "true"
        elif d[1] == "Ge" and (l, r) == (b, a):
            arm = "true"
        elif d[1] == "Ge" and (l, r) == (a, b):
            arm = "false"  # !(small >= big)  =>  small < big
        elif d[1] == "Le" and (l, r) == (b, a):
            arm = "false"  # !(big <= small)  =>  small < big
        elif d[1] == "Lt" and (l, r) == (a, b):
            arm = "true"
        elif d[1] == "Gt" and (l, r) == (b, a):
            arm = "true"
        if arm is None:
            continue
        tgt = si["arms"][arm]
        if [p for p in f.pred[tgt] if p in f.live_blocks] == [bi] and f.dominates(tgt, site_bb):
            return bi
    return None


def only_returns(g, variants):
    good = False
    for bi in g.live_blocks:
        for st in g.blocks[bi]["s"]:
            if st[0] == "A" and st[1][0] == 0 and not st[1][1]:
                rv = st[2]
                if rv[0] == "agg" and rv[1].get("variant") in variants:
                    good = True
                else:
                    return False
        t = g.blocks[bi]["t"]
        if t[0] == "call" and t[3][0] == 0:
            return False
    return good


def _owner(fid):
    """module or impl type a function belongs to: the id without its last path segment (closure suffixes kept apart)"""
    base = fid.split("::{closure")[0]
    depth = 0
    for i in range(len(base) - 1, 0, -1):
        ch = base[i]
        if ch == ">":
            depth += 1
        elif ch == "<":
            depth -= 1
        elif ch == ":" and base[i - 1] == ":" and depth == 0:
            return base[:i - 1] + fid[len(base):]
    return fid


def _relocated_row(table, s, live_keys):
    fid, kind, desc = s["key"].split(" | ", 2)
    want = (_owner(fid), kind, desc)
    cands = []
    for k in table:
        if k in live_keys:
            continue
        parts = k.split(" | ", 2)
        if len(parts) == 3 and (_owner(parts[0]), parts[1], parts[2]) == want:
            cands.append(k)
    return cands[0] if len(cands) == 1 else None


def _norm_desc(desc):
    """operand provenance modulo what a move into a helper/closure changes: ordinal suffix, anonymous closure parameters and locals"""
    d = re.sub(r" #\d+$", "", desc)
    # `?` <-> explicit match, `.unwrap()` <-> match …: the markers of transparent calls do not identify the value
    d = re.sub(r"\.(branch|from_residual|unwrap|expect|as_ref|as_mut|clone|cloned|copied|deref|deref_mut|borrow|into|from|try_into|try_from|ok|unwrap_unchecked)\(\)", "", d)
    ops = []
    for o in d.split(" , "):
        alts = [a.strip() for a in o.split(" | ")]
        # a loop-carried accumulator (`const 0 | op`), an anonymous closure parameter or an unnamed local: all "some running value"
        if any(a == "op" or a.startswith("local") or re.match(r"param _\d+", a) or re.search(r"as core::iter::traits::iterator::Iterator>::next", a) for a in alts):
            ops.append("*")
        else:
            ops.append(" | ".join(alts))
    return " , ".join(ops)


def _moved_row(table, s, live_keys, used):
    """a site that moved into an extracted helper, a split-off method or a closure of the same source file: adopt a reviewed row of the
    same file, kind and (normalised) operand provenance whose own site no longer exists; each such row serves one site"""
    fid, kind, desc = s["key"].split(" | ", 2)
    f = s["fn"].file
    nd = _norm_desc(desc)
    loose = None
    for k, row in table.items():
        if k in live_keys or k in used or row.get("file") != f:
            continue
        parts = k.split(" | ", 2)
        if len(parts) != 3 or parts[1] != kind:
            continue
        od = _norm_desc(parts[2])
        if od == nd:
            return k
        # loop <-> closure: the item of the iteration is a closure parameter in one form and a next() result in the other
        a, b = od.split(" , "), nd.split(" , ")
        closure_side = "{closure" in parts[0] or "{closure" in fid
        # a combinator replaced by its definition (or back) inside the same function: `opt.unwrap_or(d)` <-> `match opt { Some(c) => c, None => d }`
        comb = re.compile(r"^result of core::(option::Option|result::Result)::<[^>]*>::(unwrap_or|unwrap_or_else|unwrap_or_default|map_or|map_or_else|copied|cloned)(\.\w+|\(\)\w+)*$")
        plain = lambda x: all(re.match(r"^(param |const )", alt.strip()) for alt in x.split(" | "))  # noqa: E731
        if parts[0] == fid and len(a) == len(b) and any(x == y and x != "*" for x, y in zip(a, b)) and all(
                x == y or (comb.match(x) and plain(y)) or (comb.match(y) and plain(x)) for x, y in zip(a, b)):
            loose = loose or k
        if closure_side and len(a) == len(b) and all(x == y or x == "*" or y == "*" or (x.startswith("param ") and y == "*") or (y.startswith("param ") and x == "*") for x, y in zip(a, b)) \
                and any(x == y and x != "*" for x, y in zip(a, b)):
            loose = loose or k
    return loose


def _kind_class(kind):
    if re.search(r"call:(<alloc::string::String as core::ops::index::Index<I>>|core::str::traits::<impl core::ops::index::Index<I> for str>)::index$", kind):
        return "call:text-index"
    if re.search(r"call:(<alloc::vec::Vec<T, A> as core::ops::index::Index<I>>|core::slice::index::<impl core::ops::index::Index<I> for \[T\]>)::index$", kind):
        return "call:slice-index"
    return kind


def _reshaped_row(table, s, live_keys, used):
    """the function was reshaped (locals renamed, an expression split or merged, a loop turned into a fold, `a[0..n]` written `a[..n]`):
    the site keeps its function and its kind, and every operand that is not a running value (loop-carried accumulator, unnamed local)
    keeps its provenance.  Adopt a reviewed row of the SAME function and kind class whose own site no longer exists; each row serves one
    site.  An operand that changes its provenance (a call result replaced by a constant, a collection built by another constructor) is
    NOT adopted: the reviewed argument spoke about the old operand."""
    fid, kind, desc = s["key"].split(" | ", 2)

    def norm(d):
        d = re.sub(r"aggregate core::ops::range::\w+", "aggregate range", _norm_desc(d))
        return [x.strip() for x in d.split(" , ")]

    def compatible(a, b):
        return len(a) == len(b) and all(x == y or x == "*" or y == "*" for x, y in zip(a, b))

    nd = norm(desc)
    for k in table:
        if k in live_keys or k in used:
            continue
        parts = k.split(" | ", 2)
        if len(parts) != 3 or parts[0] != fid or _kind_class(parts[1]) != _kind_class(kind):
            continue
        od = norm(parts[2])
        if compatible(od, nd) or (re.search(r"overflow_(Add|Mul)$", kind) and compatible(od, nd[::-1])):
            return k
    return None


def load_table():
    if not os.path.exists(TABLE):
        return {}
    with open(TABLE) as fh:
        return json.load(fh)["sites"]


def run(ctx):
    prog = ctx.prog
    ctx.rule("R1", "every reachable panic site is discharged automatically or has a reviewed verdict; an unreviewed site is a violation")
    ctx.rule("R2", "regexes built from deserialised strings are compiled on the load path and their error is returned")
    ctx.rule("R3", "every recursive cycle reachable from load/scan roots has a stated decreasing measure")
    ctx.rule("R4", "FINDING-class panic sites reachable from walker-thread producers are hangs, not crashes")
    lr = roots(prog, LOAD_ROOTS)
    sr = scan_roots(prog)
    ctx.floor("R1", "load roots", len(lr), 40)
    ctx.floor("R1", "scan roots", len(sr), 50)
    reach_load = {r for r in prog.reach(lr) if r in prog.fns and prog.fns[r].crate in CRATES}
    reach_scan = {r for r in prog.reach(sr) if r in prog.fns and prog.fns[r].crate in CRATES}
    reach = reach_load | reach_scan
    ctx.extra["reachable_functions"] = len(reach)
    sites = site_list(prog, reach)
    ctx.floor("R1", "panic sites", len(sites), 120)
    table = load_table()
    used = set()
    live_keys = {x["key"] for x in sites}
    counts = {"auto": 0, "SAFE": 0, "STARTUP-ONLY": 0, "FINDING": 0, "unreviewed": 0}
    for s in sites:
        f = s["fn"]
        where = f.loc(s["line"])
        auto = auto_discharge(prog, s)
        if auto:
            counts["auto"] += 1
            ctx.ob("R1", s["key"], True, "auto-discharged: " + auto, where=where, nontrivial=False)
            continue
        row = table.get(s["key"])
        if row is None:
            # the function may have been renamed / its body moved into a sibling (compute -> compute_in): adopt the row of a site with the
            # same owner (module or impl type), kind, operand provenance and ordinal whose own site no longer exists
            alt = _relocated_row(table, s, live_keys)
            if alt is None or alt in used:
                alt = _moved_row(table, s, live_keys, used)
            if alt is None or alt in used:
                alt = _reshaped_row(table, s, live_keys, used)
            if alt is not None:
                row = table[alt]
                used.add(alt)
                ctx.note("panic-site row adopted after a rename: %s  <-  %s" % (s["key"], alt))
        if row is None:
            counts["unreviewed"] += 1
            ctx.ob("R1", s["key"], False, "panic site not in the reviewed table: a new way to crash on user-controlled input that nobody has argued about (%s in %s)" % (s["kind"], "load+scan" if f.id in reach_load and f.id in reach_scan else ("load" if f.id in reach_load else "scan")), where=where)
            continue
        used.add(s["key"])
        v = row["verdict"]
        counts[v] = counts.get(v, 0) + 1
        if v == "FINDING":
            ctx.ob("R1", s["key"], False, "FINDING %s: %s" % (row.get("finding", ""), row["why"]), where=where)
        else:
            ok = True
            gmsg = ""
            if "guard" in row:
                ok, gmsg = check_guard(ctx, row["guard"])
            ctx.ob("R1", s["key"], ok, "%s: %s%s" % (v, row["why"], (" [guard %s: %s]" % (row["guard"], gmsg)) if "guard" in row else ""), where=where, nontrivial="guard" in row)
    stale = [k for k in table if k not in used and not table[k].get("optional")]
    for k in stale:
        ctx.note("table row no longer matches a site (code changed or site vanished): " + k)
    ctx.extra["panic_site_verdicts"] = counts
    ctx.extra["stale_table_rows"] = len(stale)
    r2(ctx, reach_load, reach_scan)
    r3(ctx, reach)
    ctx.rule("R5", "scanner loops over user text make progress: every way round a `while let Some(i) = text[base..].find(..)` loop moves base past base + i")
    r5(ctx, reach)


GUARDS = {}


def guard(name):
    def deco(fn):
        GUARDS[name] = fn
        return fn
    return deco


def _cmp_fact(d, arm):
    """the `small <= big` pair established when comparison rvalue d evaluates to `arm`"""
    l, r = d[2], d[3]
    holds = d[1] if arm == "true" else {"Gt": "Le", "Le": "Gt", "Lt": "Ge", "Ge": "Lt"}[d[1]]
    return (l, r) if holds in ("Le", "Lt") else (r, l)


def _arm_facts(f, bi, si, arm, depth):
    """order facts known when the bool switch at bi takes `arm`: the comparison itself, or — when the switch is on a bool VARIABLE
    (`let ok = a <= b && b <= n; if ok {…}`, short-circuit evaluation assigns it in several blocks) — what is common to every assignment
    that can give the variable that value"""
    d = si.get("bool_def")
    if d and d[0] == "bin" and d[1] in ("Gt", "Lt", "Ge", "Le"):
        return [_cmp_fact(d, arm) + (bi,)]
    if depth > 3 or si["op"][0] == "k":
        return []
    base = _src_local(f, si["op"])
    if not base:
        return []
    per_def = []
    for df in f.defs.get(base[1], []):
        if df[0] != "assign" or df[1] not in f.live_blocks or df[4]:
            return []
        rv = df[3]
        here = _dominating_orders(f, df[1], depth + 1)
        if rv[0] == "use" and rv[1][0] == "k" and rv[1][1].get("ty") == "bool":
            if (rv[1][1].get("v") == "true") != (arm == "true"):
                continue          # this assignment cannot produce the value of this arm
            per_def.append(here)
        elif rv[0] == "bin" and rv[1] in ("Gt", "Lt", "Ge", "Le"):
            per_def.append(here + [_cmp_fact(rv, arm) + (df[1],)])
        else:
            per_def.append(here)
    if not per_def:
        return []
    key = lambda t: (_src_local(f, t[0]), _src_local(f, t[1]))  # noqa: E731
    common = set(map(key, per_def[0]))
    for p_ in per_def[1:]:
        common &= set(map(key, p_))
    return [t for t in per_def[0] if key(t) in common and None not in key(t)]


def _dominating_orders(f, site_bb, depth=0):
    """every `small <= big` fact (as operand pairs) established by a comparison whose arm dominates site_bb"""
    out = []
    for bi in sorted(f.live_blocks):
        si = f.switch_info(bi)
        if not si or "true" not in si["arms"] or si["op"][0] == "k":
            continue
        for arm in ("true", "false"):
            tgt = si["arms"][arm]
            if not ([p for p in f.pred[tgt] if p in f.live_blocks] == [bi] and (f.dominates(tgt, site_bb) or tgt == site_bb)):
                continue
            out += _arm_facts(f, bi, si, arm, depth)
    return out


def check_guard(ctx, name):
    g = GUARDS.get(name)
    if g is None:
        return False, "unknown guard"
    try:
        return g(ctx)
    except Exception as e:  # fail closed
        return False, "guard raised %r" % (e,)


@guard("accept_loop_orders_diffs")
def g_accept_loop(ctx):
    """apply_rewrite slices old[cursor..diff.range.start] with cursor = end of the previously accepted diff: cursor <= start needs the
    accept loop (process_diffs_interactive) to skip every diff that starts before the end of the last accepted one, and the list to be
    sorted — the C18 R1 obligations on that loop"""
    from . import c18
    from ..core import Ctx
    sub = ctx.prog.__dict__.get("_c18_sub")
    if sub is None:
        sub = Ctx("C18", ctx.tier, ctx.prog)
        c18.run(sub)
        ctx.prog.__dict__["_c18_sub"] = sub
    rel = [o for o in sub.obligations if o["key"].split(":", 1)[1].startswith(("overlap test", "diffs stay ordered", "floor/range-overlap", "apply_rewrite/read cursor"))]
    bad = [o["key"] for o in rel if not o["ok"]]
    return len(rel) >= 3 and not bad, "%d obligations on the accept loop / the cursor hold" % len(rel) if not bad and len(rel) >= 3 else \
        "the accept loop no longer guarantees that an accepted diff starts at or after the end of the previous one (%s): apply_rewrite slices old[start..range.start] with start > range.start and panics" % (bad or "obligations missing")


@guard("substring_bounds")
def g_substring_bounds(ctx):
    """`chars[start..end]` in Substring::compute: both `start <= end` and `end <= chars.len()` are established by comparisons whose
    arm dominates the slice (resolve_char clamps each index into 0..=len but does not order them)"""
    prog = ctx.prog
    f = prog.inlined(prog.one_fn(r"^ast_grep_config::transform::transformation::Substring::<ast_grep_core::meta_var::MetaVariable>::compute$"))
    sites = [c for c in f.calls if c.name == "index" and c.bb in f.live_blocks and len(c.args) == 2 and
             any(o.kind == "agg" and str(o.ref[2][1].get("adt", "")).endswith("ops::range::Range") for o in f.trace_operand(c.args[1]))]
    if not sites:
        return False, "no slice-by-range site found in Substring::compute"
    msgs = []
    for c in sites:
        agg = [o for o in f.trace_operand(c.args[1]) if o.kind == "agg"][0].ref
        start, end = agg[2][2][0], agg[2][2][1]
        a, b = _src_local(f, start), _src_local(f, end)
        facts_ = _dominating_orders(f, c.bb)
        ordered = a is not None and b is not None and a != b and any(_src_local(f, l) == a and _src_local(f, r) == b for l, r, _ in facts_)
        vec = {(o.kind, o.ref if isinstance(o.ref, (int, str)) else id(o.ref)) for o in deep_roots(prog, f, c.args[0], TRANSPARENT)}
        def is_len(op):
            for o in f.trace_operand(op):
                if o.kind == "call" and o.ref.name == "len" and o.ref.args:
                    r = {(x.kind, x.ref if isinstance(x.ref, (int, str)) else id(x.ref)) for x in deep_roots(prog, f, o.ref.args[0], TRANSPARENT)}
                    if r & vec:
                        return True
            return False
        bounded = b is not None and any(_src_local(f, l) == b and is_len(r) for l, r, _ in facts_)
        if not ordered:
            msgs.append("no dominating comparison establishes start <= end before the slice: `substring` with startChar > endChar (e.g. 3 and 1) panics with 'slice index starts at 3 but ends at 1'")
        # `end <= len` is additionally guaranteed by resolve_char's clamping (value level): a missing comparison is not reported
        ctx.extra.setdefault("substring_bounds", {})["end<=len tested before the slice"] = bounded
    return not msgs, "start <= end holds on every path to the slice" if not msgs else "; ".join(msgs)


@guard("ids_from_get_order")
def g_ids_from_order(ctx):
    """`utils.get(id).expect("must exist")`: id iterates the order returned by TopologicalSort::get_order(utils) of the same map"""
    prog = ctx.prog
    oks = []
    for pat in (r"deserialize_env::DeserializeEnv::<L>::with_utils$", r"deserialize_env::DeserializeEnv::<L>::parse_global_utils$"):
        f = prog.one_fn(pat)
        gets = [c for c in f.calls if c.name == "get" and "HashMap" in c.best]
        go = [c for c in f.calls if c.name == "get_order"]
        if not gets or not go:
            return False, "get/get_order not found in %s" % f.id
        T = (TRANSPARENT | {"next", "map_err", "into_iter"}) - {"get"}
        key_roots = deep_roots(prog, f, gets[0].args[1], T)
        from_order = any(o.kind == "call" and o.ref is go[0] for o in key_roots)
        a = {(o.kind, o.ref if o.kind != "call" else id(o.ref)) for o in deep_roots(prog, f, gets[0].args[0])}
        b = {(o.kind, o.ref if o.kind != "call" else id(o.ref)) for o in deep_roots(prog, f, go[0].args[0])}
        oks.append(from_order and bool(a & b))
    return all(oks), "keys come from get_order(the same map): %s" % oks


@guard("rewriter_has_fix")
def g_rewriter_fix(ctx):
    """`rule.fixer.as_ref().expect("rewriter must have fix")`: insert_rewriter is only reached after fix.is_none() -> Err"""
    prog = ctx.prog
    fs = prog.find_fns(r"rule_config::.*register_rewriters$")
    if len(fs) != 1:
        return False, "register_rewriters not found"
    f = fs[0]
    fam = prog.family(f)
    ins = [c for g in fam for c in g.calls if c.name in ("insert_rewriter", "try_insert_rewriter")]
    isn = [c for g in fam for c in g.calls if c.name == "is_none"]
    if not ins or not isn:
        return False, "insert_rewriter/is_none not found"
    from ..query import bool_arms
    for c in isn:
        g = c.fn
        ba = bool_arms(g, c)
        if ba is None:
            continue
        from ..query import reach_with_variants
        tblocks = reach_with_variants(g, ba["true"], stop=[ba["false"]])
        roots = deep_roots(prog, g, c.args[0])
        if any("fix" in field_path(o.proj) for o in roots):
            same = [i for i in ins if i.fn is g]
            if same and all(g.dominates(c.bb, i.bb) and i.bb not in tblocks for i in same):
                return True, "insert_rewriter dominated by the fix.is_none() test and not on its true arm"
    return False, "no dominating fix.is_none() test found"


@guard("regex_validated_at_load")
def g_regex_validated(ctx):
    """Replace::compute's `Regex::new(&self.replace).unwrap()`: Transformation::<String>::parse compiles the same field
    and returns the error, and every Transformation<MetaVariable> comes out of parse"""
    prog = ctx.prog
    f = prog.one_fn(r"transformation::Transformation::<alloc::string::String>::parse$")
    fam = prog.family(f)
    rn = [c for g in fam for c in g.calls if c.best.endswith("Regex::new")]
    if not rn:
        return False, "Transformation::parse does not compile the regex"
    ok_field = False
    ok_err = False
    for c in rn:
        g = c.fn
        roots = ultimate_roots(prog, g, c.args[0], TRANSPARENT | {"deref"})
        if any("replace" in field_path(o.proj) for ff, o in roots):
            ok_field = True
        arms = option_arms(g, c)
        # map_err + ? : the Result flows into map_err then branch
        me = [c2 for c2 in g.calls if c2.name == "map_err" and any(o.kind == "call" and o.ref is c for o in g.trace_operand(c2.args[0]))]
        for m in me:
            a2 = option_arms(g, m)
            for nb in a2["none"]:
                blocks = g.reachable_from(nb, stop=a2["some"])
                if any(c3.bb in blocks and c3.name == "from_residual" for c3 in g.calls):
                    ok_err = True
        for nb in arms["none"]:
            blocks = g.reachable_from(nb, stop=arms["some"])
            if any(c3.bb in blocks and c3.name == "from_residual" for c3 in g.calls):
                ok_err = True
    # Replace<MetaVariable> is only constructed inside parse
    aggs = [(ff, s) for ff, bi, si, s in prog.aggregates_of(r"^ast_grep_config::transform::transformation::Replace$") if ff.crate == "ast_grep_config" and ff.impl_trait is None]
    only_parse = all(ff is f or ff.root == f.id for ff, s in aggs)
    # the compile is not optional: wherever parse builds a Replace<MetaVariable>, a Regex::new of parse's own body dominates the
    # construction ("plain strings need no compilation" guesses which strings are plain)
    own = [c for c in rn if c.fn is f]
    always = True
    if own:
        for ff, bi, si, st in prog.aggregates_of(r"^ast_grep_config::transform::transformation::Replace$"):
            if ff is f and bi in f.live_blocks and not any(f.dominates(c.bb, bi) for c in own):
                always = False
    return ok_field and ok_err and only_parse and always, "parse compiles self.replace=%s, returns its error=%s, Replace built only in parse=%s, compile dominates the construction=%s" % (ok_field, ok_err, only_parse, always)


def _on_nonempty_arm(prog, f, site_blocks):
    """every block in site_blocks is reachable only through the `false` arm of an `is_empty()` test"""
    from ..query import bool_arms
    tests = [c for c in f.calls if c.name == "is_empty"]
    for c in tests:
        ba = bool_arms(f, c)
        if ba is None:
            continue
        tb = f.reachable_from(ba["true"], stop=[ba["false"]])
        if all(f.dominates(c.bb, b) and b not in tb for b in site_blocks):
            return True
    return False


@guard("multi_nodes_nonempty")
def g_multi_nonempty(ctx):
    prog = ctx.prog
    res = []
    for pat in (r"^ast_grep_core::meta_var::get_var_bytes_impl$", r"^ast_grep_core::replacer::template::maybe_get_var$", None):
        f = prog.one_fn(pat) if pat else _rewrite_compute(prog)
        sites = [c.bb for c in f.calls if c.name == "index" and "Vec" in c.best and any(o.kind == "call" and o.ref.name in ("get_multiple_matches", "get_nodes_from_env") for o in deep_roots(prog, f, c.args[0]))]
        # a function that no longer indexes the node list (`nodes.first()?`) has nothing to guard
        res.append(None if not sites else _on_nonempty_arm(prog, f, sites))
    n = sum(1 for r in res if r is not None)
    return all(r is not False for r in res) and n >= 2, "index sites lie on the non-empty arm of nodes.is_empty(): %s (None = the function has no such index any more)" % res


@guard("off_rules_never_scanned")
def g_off_rules(ctx):
    """the `unreachable!("turned-off rule should not have match")` arms of the printers: every CombinedScan is built from rules that
    came out of a RuleCollection (whose constructor drops Severity::Off) or from a pipeline that filters on `.severity`"""
    prog = ctx.prog
    from ..query import iter_chain
    tn = prog.one_fn(r"^ast_grep_config::rule_collection::RuleCollection::<L>::try_new$")
    # every storing site of try_new lies on the not-Off side of a severity test (rulecoll RC1)
    from . import rulecoll
    from ..core import Ctx
    sub = Ctx("C11", ctx.tier, prog)
    rulecoll.rc1(sub, "RC")
    coll_bad = [o["key"] for o in sub.obligations if not o["ok"]]
    coll_ok = bool(sub.obligations) and not coll_bad
    sites, bad = 0, []
    for f in prog.fns.values():
        if not f.crate.startswith("ast_grep") or f.crate in ("ast_grep_napi", "ast_grep_py"):
            continue
        for c in f.calls:
            if not c.best.endswith("CombinedScan::<'r, L>::new") or c.bb not in f.live_blocks:
                continue
            sites += 1
            ad, lv = iter_chain(prog, f, c.args[0])
            from_coll = bool(lv) and all(o.kind == "call" and o.ref.name in ("get_rule_from_lang", "for_path", "get_rules") for ff, o in lv)
            filt = False
            for ff, a in ad:
                if a.name == "filter":
                    for g in prog.closures_of(ff):
                        cons = closure_consumer(prog, g)
                        if cons and cons[1] is a and ".severity|" in repr([b["s"] for b in g.blocks] + [b["t"] for b in g.blocks]):
                            filt = True
            if not (from_coll or filt):
                bad.append(f.id)
    ok = coll_ok and sites >= 3 and not bad
    return ok, ("RuleCollection::try_new skips Severity::Off; %d CombinedScan::new sites take their rules from a RuleCollection or filter on severity" % sites) if ok else \
        "a CombinedScan is built from rules that may include severity off (%s; RuleCollection filters every stored rule: %s %s): a match of such a rule reaches the printers' unreachable!()" % (bad, coll_ok, coll_bad)


@guard("deserialize_rule_nonempty")
def g_deser_nonempty(ctx):
    prog = ctx.prog
    f = prog.one_fn(r"^ast_grep_config::rule::deserialize_rule$")
    sites = [c.bb for c in f.calls if c.name == "expect"]
    ok = bool(sites) and _on_nonempty_arm(prog, f, sites)
    return ok, "rules.pop().expect lies on the non-empty arm of rules.is_empty()"


@guard("transform_keys_from_order")
def g_transform_keys(ctx):
    prog = ctx.prog
    f = prog.one_fn(r"^ast_grep_config::transform::Transform::deserialize$")
    go = [c for c in f.calls if c.name == "get_transform_order"]
    if not go:
        return False, "get_transform_order not called"
    from ..query import iter_chain
    idxs = [c for g in prog.family(f) for c in g.calls if c.name == "index" and "HashMap" in c.best and c.bb in g.live_blocks]
    if not idxs:
        return False, "no HashMap index found"
    m2 = {(o.kind, o.ref if o.kind != "call" else id(o.ref)) for o in deep_roots(prog, f, go[0].args[1])}
    msgs = []
    for c in idxs:
        g = c.fn
        ad, lv = iter_chain(prog, g, c.args[1])
        def reaches_go(ff, o):
            if o.kind != "call":
                return False
            if o.ref is go[0]:
                return True
            return bool(o.ref.args) and o.ref.args[0][0] != "k" and any(o2.kind == "call" and o2.ref is go[0] for o2 in deep_roots(prog, ff, o.ref.args[0], TRANSPARENT | {"map_err"}))
        from_order = any(reaches_go(ff, o) for ff, o in lv) or any(x[1] is go[0] for x in ad) or \
            any(o.kind == "call" and o.ref is go[0] for ff, o in ultimate_roots(prog, g, c.args[1], TRANSPARENT | {"into_iter", "map_err", "next", "iter"}))
        m1 = {(o.kind, o.ref if o.kind != "call" else id(o.ref)) for ff, o in ultimate_roots(prog, g, c.args[0]) if ff.id == f.id}
        same_map = bool(m1 & m2)
        msgs.append("key from get_transform_order(map)=%s, same map=%s" % (from_order, same_map))
        if not (from_order and same_map):
            return False, "; ".join(msgs)
    return True, "every `map[key]` indexes the map that was given to get_transform_order with a key taken from its result (%s)" % "; ".join(msgs)


@guard("combined_scan_index")
def g_combined_index(ctx):
    from . import c01
    from ..core import Ctx
    sub = Ctx("C01", ctx.tier, ctx.prog)
    c01.r6(sub)
    bad = [o["key"] for o in sub.obligations if not o["ok"] and "CombinedScan" in o["key"]]
    n = sum(1 for o in sub.obligations if "CombinedScan" in o["key"])
    return not bad and n >= 5, "C01-R6 index-consistency obligations hold (%d)" % n if not bad else "violated: %s" % bad


@guard("pattern_new_callers")
def g_pattern_new(ctx):
    prog = ctx.prog
    callers = set()
    for pat in (r"^ast_grep_core::matcher::pattern::Pattern::<L>::new$", r"^ast_grep_core::matcher::pattern::Pattern::<L>::str$"):
        for f in prog.find_fns(pat):
            for c in prog.call_sites.get(f.id, []):
                callers.add(c.fn.id)
    bad = [c for c in callers if not c.startswith(("ast_grep_core::", "<str as ast_grep_core::", "ast_grep_napi::", "<ast_grep_core::"))]
    return not bad, "Pattern::new/str are called only inside ast-grep-core's convenience API: %s" % sorted(callers) if not bad else "called with possibly user-supplied text from %s" % bad


@guard("peekable_nonempty")
def g_peekable(ctx):
    """typestate analysis (sgcheck/peekable.py): every peek().unwrap() / next().unwrap() in the pattern-alignment module is
    reached only with the iterator known non-empty; helper pre/post-conditions are inferred and checked at their call sites"""
    from .. import peekable
    summ, res = peekable.analyse_module(ctx.prog, lambda f: f.id.startswith("ast_grep_core::match_tree::match_node::"))
    obs = [(k, o) for k, a in res.items() for o in a.obligations]
    bad = ["%s L%d: %s" % (k.rsplit("::", 1)[-1], o[2], o[0]) for k, o in obs if not o[3]]
    ctx.extra["peekable_typestate"] = {"obligations": len(obs), "failed": bad,
                                        "summaries": {k.rsplit("::", 1)[-1]: {"pre": sorted(v["pre"]), "post": {x: sorted(y) for x, y in v["post"].items()}} for k, v in summ.items()}}
    if len(obs) < 8:
        return False, "typestate analysis found only %d unwrap/call obligations (expected >= 8): it has gone blind" % len(obs)
    return not bad, "%d iterator obligations discharged (helper contracts %s)" % (len(obs), {k.rsplit("::", 1)[-1]: sorted(v["pre"]) for k, v in summ.items()}) if not bad else "iterator may be empty at: %s" % "; ".join(bad)


def _rewrite_compute(prog):
    """the method of Rewrite<MetaVariable> that does the work (calls find_and_make_edits), whatever its name"""
    fs = [f for f in prog.find_fns(r"^ast_grep_config::transform::rewrite::Rewrite::<ast_grep_core::meta_var::MetaVariable>::") if not f.is_closure and any(c.name == "find_and_make_edits" for c in f.calls)]
    if len(fs) != 1:
        raise AnchorError("Rewrite's computing method not identified (%d candidates)" % len(fs))
    return fs[0]


@guard("rewrite_edits_filtered")
def g_rewrite_filtered(ctx):
    """every `edit.position - start/offset` in rewrite.rs is protected: make_edit uses checked_sub; Rewrite::compute only
    subtracts from edits that passed a `filter(position >= start)` (not merely a leading skip_while)"""
    prog = ctx.prog
    me = prog.one_fn(r"^ast_grep_config::transform::rewrite::make_edit$")
    cs = [c for c in me.calls if c.name == "checked_sub"]
    comp = _rewrite_compute(prog)
    filt = [c for c in comp.calls if c.name == "filter" and "Iterator" in (c.callee.get("trait") or c.best)]
    weak = [c for c in comp.calls if c.name in ("skip_while", "skip", "take_while")]
    nexts = [c for c in comp.calls if c.name == "next" and "Filter" in c.best]
    other_next = [c for c in comp.calls if c.name == "next" and "Iterator" in (c.callee.get("trait") or "") and "Filter" not in c.best and "IntoIter" in c.best]
    ok = bool(cs) and bool(filt) and bool(nexts) and not other_next and not weak
    return ok, "make_edit uses checked_sub=%s; compute iterates a filter(position >= start) adaptor=%s (weaker adaptors: %s)" % (bool(cs), bool(filt) and bool(nexts), [c.name for c in weak])



# ------------------------------------------------------------------------------------------------
def r2(ctx, reach_load, reach_scan):
    prog = ctx.prog
    sites = prog.who_calls(r"^regex::regex::string::Regex::new$|^regex::builders::string::RegexBuilder::build$|^regex::regex::bytes::Regex::new$")
    n = 0
    for c in sites:
        f = c.fn
        if f.crate not in CRATES:
            continue
        n += 1
        roots = ultimate_roots(prog, f, c.args[0], TRANSPARENT | {"deref", "as_str", "borrow"})
        const_only = all(o.kind == "const" for ff, o in roots)
        key = "Regex::new in %s" % f.id
        if const_only:
            ctx.ob("R2", key, True, "pattern is a constant", where=f.loc(c.line), nontrivial=False)
            continue
        # Err arm must flow to the function's own Err return: the result is not unwrapped/expected
        unwrapped = [c2 for c2 in f.calls if c2.name in ("unwrap", "expect") and any(o.kind == "call" and o.ref is c for o in f.trace_operand(c2.args[0]))]
        returned = False
        arms = option_arms(f, c)
        if arms["none"]:
            for nb in arms["none"]:
                blocks = f.reachable_from(nb, stop=arms["some"])
                if assigns_ret_variant(f, blocks, "Err") or any(c2.bb in blocks and c2.name == "from_residual" for c2 in f.calls):
                    returned = True
        # or the Result is returned as is (Regex::new(..) as tail / map_err)
        if not unwrapped and not returned:
            for bi in f.return_blocks():
                pass
            rr = f.trace_local(0)
            if any(o.kind == "call" and (o.ref is c or (o.ref.name in ("map_err", "map", "and_then") and any(x.kind == "call" and x.ref is c for x in f.trace_operand(o.ref.args[0])))) for o in rr):
                returned = True
        if not returned:
            # Regex::new(..).map_err(..)? : follow the adaptor
            for m in [c2 for c2 in f.calls if c2.name in ("map_err", "map", "context", "with_context") and any(o.kind == "call" and o.ref is c for o in f.trace_operand(c2.args[0]))]:
                a2 = option_arms(f, m)
                for nb in a2["none"]:
                    blocks = f.reachable_from(nb, stop=a2["some"])
                    if assigns_ret_variant(f, blocks, "Err") or any(c3.bb in blocks and c3.name == "from_residual" for c3 in f.calls):
                        returned = True
        if unwrapped:
            # accepted only when the very same pattern was validated on the load path (machine-checked guard)
            gok, gmsg = check_guard(ctx, "regex_validated_at_load")
            if gok and "Replace" in f.id:
                ctx.ob("R2", key, True, "unwrap of a regex already compiled (and its error returned) at load: %s" % gmsg, where=f.loc(c.line))
                continue
        on_load = f.id in reach_load
        only_scan = f.id in reach_scan and not on_load
        ok = returned and not unwrapped and not only_scan
        ctx.ob("R2", key, ok,
               "pattern from %s; error %s; function is on the %s path" % (
                   "; ".join(strip_lines(describe_origin(ff, o)) for ff, o in roots)[:200],
                   "returned to the caller" if returned and not unwrapped else ("UNWRAPPED: an invalid regex panics" if unwrapped else "not visibly returned"),
                   "load" if on_load else ("scan-only (compiled per match)" if only_scan else "neither load nor scan")),
               where=f.loc(c.line))
    ctx.floor("R2", "regex construction sites", n, 2)


# ------------------------------------------------------------------------------------------------
def sccs(nodes, succ):
    index = {}
    low = {}
    stack = []
    on = set()
    out = []
    counter = [0]
    import sys
    sys.setrecursionlimit(10000)

    def strong(v):
        index[v] = low[v] = counter[0]
        counter[0] += 1
        stack.append(v)
        on.add(v)
        for w in succ(v):
            if w not in nodes:
                continue
            if w not in index:
                strong(w)
                low[v] = min(low[v], low[w])
            elif w in on:
                low[v] = min(low[v], index[w])
        if low[v] == index[v]:
            comp = []
            while True:
                w = stack.pop()
                on.discard(w)
                comp.append(w)
                if w == v:
                    break
            out.append(comp)

    for v in sorted(nodes):
        if v not in index:
            strong(v)
    return out


def r3(ctx, reach):
    prog = ctx.prog
    if not os.path.exists(RECURSION):
        rows = []
    else:
        with open(RECURSION) as fh:
            rows = json.load(fh)["sccs"]
    comps = sccs(reach, lambda v: prog.callees.get(v, ()))
    rec = []
    for comp in comps:
        if len(comp) > 1 or comp[0] in prog.callees.get(comp[0], ()):
            rec.append(sorted(comp))
    n = 0
    adopted = set()
    for comp in rec:
        n += 1
        # key: the lexicographically smallest non-closure member
        named = [c for c in comp if "{closure" not in c] or comp
        key = named[0]
        row = None
        for r in rows:
            if any(re.search(m, x) for m in r["members"] for x in comp):
                row = r
                break
        if row is None:
            # a renamed / wrapped recursive function: adopt the row of a cycle that vanished from the same source file(s)
            cfiles = {prog.fns[x].file for x in comp if "{closure" not in x}
            for r in rows:
                live = any(re.search(m, x) for m in r["members"] for comp2 in rec for x in comp2)
                if not live and id(r) not in adopted and r.get("files") and cfiles <= set(r["files"]) and len(comp) <= r.get("max_size", 10 ** 6):
                    row = r
                    adopted.add(id(r))
                    ctx.note("recursion row adopted after a rename: %s <- %s" % (key, r["members"][0]))
                    break
        if row is None:
            ctx.ob("R3", "scc %s" % key, False, "recursive cycle of %d functions without a stated measure: %s" % (len(comp), ", ".join(named[:6])), where=prog.fns[key].loc())
            continue
        ok, msg = True, ""
        if "guard" in row:
            ok, msg = check_guard(ctx, row["guard"])
        if len(comp) > row.get("max_size", 10 ** 6):
            ok, msg = False, (msg + "; " if msg else "") + "component grew to %d functions (reviewed at <= %d): new members need review: %s" % (len(comp), row["max_size"], ", ".join(named[:8]))
        ctx.ob("R3", "scc %s" % key, ok, "%d functions; measure: %s%s" % (len(comp), row["measure"], (" [guard %s: %s]" % (row["guard"], msg)) if "guard" in row else ""), where=prog.fns[key].loc(), nontrivial="guard" in row)
    ctx.floor("R3", "recursive SCCs", n, 3)
    rewriter_recursion(ctx)


APPLYING_TY = re.compile(r"^core::option::Option<&ast_grep_config::transform::Applying<'_>>$")


def rewriter_recursion(ctx):
    """The rewriter recursion (do_match -> transform -> rewrite -> replace_one -> do_match) has no syntactic measure: the source of a
    `rewrite` can be the matched node itself or an ancestor (finding F27).  Its measure is dynamic: the chain of applications
    (`Applying`) is threaded through the cycle, and replace_one applies a rewriter only inside the node of the enclosing application
    and never to a (rewriter, node) pair already on the chain.  Checked: the chain reaches every hop of the cycle unbroken, and the
    guard dominates the re-entry."""
    prog = ctx.prog
    from ..query import bool_arms
    ro = ctx.anchor("R3", r"^ast_grep_config::transform::rewrite::replace_one$")
    if not ro:
        return
    def aparams(f):
        return [i for i in range(1, f.nargs + 1) if APPLYING_TY.match(f.locals[i])]
    carriers = {f.id: f for f in prog.fns.values() if not f.is_closure and aparams(f)}
    ctx.floor("R3", "functions carrying the application chain", len(carriers), 7)
    news = {f.id for f in prog.find_fns(r"^ast_grep_config::transform::Applying::<'a>::new$")}
    hops = 0
    seen_hops = {}
    for f in sorted(carriers.values(), key=lambda f: f.id):
        if f.id in news:
            continue
        P = aparams(f)
        for g in prog.family(f):
            for c in g.calls:
                if c.bb not in g.live_blocks:
                    continue
                for t in prog.call_targets(c):
                    callee = carriers.get(t)
                    if callee is None or t in news:
                        continue
                    hops += 1
                    bad = []
                    for j in aparams(callee):
                        a = c.args[j - 1]
                        ok = False
                        if a[0] != "k":
                            for ff, o in ultimate_roots(prog, g, a, {"as_ref", "as_deref", "copied", "clone"}):
                                if ff is f and o.kind == "param" and o.ref in P:
                                    ok = True
                                elif o.kind == "agg" and o.ref[2][1].get("variant") == "Some" and o.ref[2][2]:
                                    # Some(&Applying::new(.., .., outer))
                                    for f3, o3 in ultimate_roots(prog, ff, o.ref[2][2][0], set()):
                                        if o3.kind == "call" and set(prog.call_targets(o3.ref)) & news and len(o3.ref.args) >= 3:
                                            if any(f4 is f and o4.kind == "param" and o4.ref in P for f4, o4 in ultimate_roots(prog, f3, o3.ref.args[2], set())):
                                                ok = True
                        if not ok:
                            bad.append(j)
                    seen_hops[(f.name, callee.name)] = seen_hops.get((f.name, callee.name), 0) + 1
                    k = seen_hops[(f.name, callee.name)]
                    ctx.ob("R3", "application chain %s -> %s%s" % (f.name, callee.name, "" if k == 1 else "#%d" % k), not bad,
                           "the caller's chain (or a new link whose outer is the caller's chain) is handed on" if not bad else
                           "%s calls %s without handing on its chain of rewriter applications (argument %s is not derived from its own `applying`): the recursion "
                           "guard in replace_one no longer sees the enclosing applications, recursive rewriters can re-enter the same node without end" % (f.id, callee.id, bad),
                           where=g.loc(c.line))
    ctx.floor("R3", "hops of the application chain", hops, 6)
    # the guard dominates the re-entry
    dm = [c for c in ro.calls if c.name == "do_match" and c.bb in ro.live_blocks]
    guards = []
    for c in ro.calls:
        if c.name == "is_some_and" and c.args and any(o.kind == "param" and o.ref in aparams(ro) for o in ro.trace_operand(c.args[0])):
            cl = [g for g in prog.closures_of(ro) if any(x.name == "allows" for x in g.calls)]
            if cl:
                guards.append(c)
    ok = bool(dm) and bool(guards)
    detail = "no guard found"
    if ok:
        ba = bool_arms(ro, guards[0])
        ok = ba is not None and all(ro.dominates(ba["false"], c.bb) and c.bb not in ro.reachable_from(ba["true"], stop=[ba["false"]]) for c in dm)
        detail = "do_match is reached only when no enclosing application forbids (rewriter, node): `applying.is_some_and(|a| !a.allows(..))` true arm skips"
    ctx.ob("R3", "rewriter re-entry guarded in replace_one", ok, detail if ok else "the re-entry into do_match is not dominated by the Applying::allows guard: " + detail, where=ro.loc())
    al = ctx.anchor("R3", r"^ast_grep_config::transform::Applying::<'a>::allows$")
    ia = ctx.anchor("R3", r"^ast_grep_config::transform::Applying::<'a>::is_applying$")
    if al and ia:
        names = {c.name for g in prog.family(al) for c in g.calls}
        ctx.ob("R3", "Applying::allows = inside the applied node and not already applied", {"ancestors", "is_applying", "node_id"} <= names,
               "allows() consults node_id/ancestors (inside-ness) and is_applying (pair on the chain)", where=al.loc())
        rec = any(set(prog.call_targets(c)) == {ia.id} for g in prog.family(ia) for c in g.calls)
        ctx.ob("R3", "Applying::is_applying walks the whole chain", rec, "is_applying recurses into `outer`", where=ia.loc())


@guard("same_node_cycle_visitors")
def g_cycle_visitors(ctx):
    """the 'references are acyclic' measure is only as good as the cycle checks: re-run C12-R3"""
    from . import c12
    from ..core import Ctx
    sub = Ctx("C12", ctx.tier, ctx.prog)
    reach, bearing = c12.rule_bearing(ctx.prog)
    c12.r3(sub, bearing)
    bad = [o["key"] for o in sub.obligations if not o["ok"]]
    return not bad, "cycle visitors cover all same-node operators" if not bad else "uncovered: %s" % bad


def r5(ctx, reach):
    """Besides recursion (R3) the other way to hang on a YAML rule is a scanning loop that stops advancing.  The loops that restart a
    search at a computed position are found structurally (a `find`/`position` in a loop whose receiver is `text[base..]` with a
    non-constant base) and executed symbolically over affine forms (sgcheck/affine.py): on every path round the loop
    base' - base - i must be a non-negative combination with a positive part."""
    from .. import affine
    from ..query import loop_of
    prog = ctx.prog
    n = 0
    for fid in sorted(reach):
        f0 = prog.fns.get(fid)
        if f0 is None or f0.is_closure:
            continue
        if not any(c.name in ("find", "position", "rfind") and f0.in_loop(c.bb) for c in f0.calls):
            continue
        f = f0   # helpers stay calls (their results are opaque non-negative symbols); inlining would multiply the paths
        for c in f.calls:
            if c.name not in ("find", "position", "rfind") or c.bb not in f.live_blocks or not f.in_loop(c.bb) or not c.args or c.args[0][0] == "k":
                continue
            idx = [o.ref for o in f.trace_operand(c.args[0]) if o.kind == "call" and o.ref.name == "index" and len(o.ref.args) == 2]
            if not idx:
                continue
            aggs = [o.ref for o in f.trace_operand(idx[0].args[1]) if o.kind == "agg" and str(o.ref[2][1].get("adt", "")).endswith("ops::range::RangeFrom")]
            if not aggs or aggs[0][2][2][0][0] == "k":
                continue
            n += 1
            ab = aggs[0][0]
            scc = {b for b in f.reachable_from(ab) if ab in f.reachable_from(b)}
            hdr = [b for b in scc if all(f.dominates(b, x) for x in scc)]
            key = "%s/loop restarting `%s` at a computed position" % (f0.id, c.name)
            if len(hdr) != 1:
                ctx.ob("R5", key, False, "cannot identify the loop header (%s)" % hdr, where=f0.loc(c.line))
                continue
            ex = affine.LoopExec(f, c, aggs[0][2][2][0], aggs[0][0], aggs[0][1])
            res = ex.run(hdr[0])
            probs = sorted({p for _, form in res for p in [affine.progress_problems(form)] if p})
            ok = bool(res) and not probs
            ctx.ob("R5", key, ok,
                   "%d path(s) round the loop; on each the restart position grows by more than the offset of the hit" % len(res) if ok else
                   ("no path round the loop could be followed" if not res else
                    "on some path round the loop %s: with a suitable text the search finds the same position again and the loop never ends (a rule file's fix/message hangs ast-grep)" % "; ".join(probs)),
                   where=f0.loc(c.line), facts={"paths": len(res)})
    ctx.floor("R5", "scanner loops restarting a search at a computed position", n, 1)
