"""C09 — all front ends report the same findings: finding funnel, message funnel, LSP stale-version guard."""
import re
from ..query import (deep_roots, ultimate_roots, describe_origin, field_path, TRANSPARENT, calls_in, path_avoiding, loops_reaching, iter_chain,
                     DROPPING_ITER)

EXPLANATION = (
    "Decided: R1 finding funnel — every front end that turns (rules, text) into findings (sg scan per file, sg scan --stdin, the "
    "language server) obtains matches only from CombinedScan::scan over a CombinedScan built from rules selected by the rule "
    "collection, registers the unused-suppression rule, and never matches a rule's matcher directly; the test runner, which only "
    "needs 'some match exists', calls find on the rule's own RuleCore. R2 message funnel — every renderer of a rule message goes "
    "through RuleConfig::get_message; raw reads of the `message` field elsewhere are listed. R3 stale versions — in the language "
    "server's change handler (coroutine CFG re-linked across await points) the replacement of the stored tree and the publication "
    "are dominated by the `stored.version > incoming.version -> return` test, the published version is the one stored, and close "
    "removes the entry. R4 nothing is lost between the scan result and the listing: in the scan drivers, the JSON and GitHub processors "
    "and the language server's diagnostics builder, every loop over findings reaches its emit call on each iteration (no `continue` in "
    "front of it) and runs to exhaustion, and the iterator pipelines that carry findings to the printer contain no element-dropping adaptor."
)
NOT_DECIDED = (
    "Interleavings of concurrent LSP handlers (tower-lsp scheduling; on_open publishes before inserting); equality of ranges/texts "
    "across printers as values (C16); the language server does not scan injected documents of a host file at all (feature "
    "difference, recorded as an observation); the GitHub format has no level for severity `hint` and omits those findings, and the colored "
    "terminal report omits a fixable finding nested in the previous one (both by design, observations)."
)
TRUSTED = ["nightly rustc MIR incl. coroutine lowering", "tower-lsp delivers notifications to the handlers shown"]

DIRECT_MATCH = {"match_node", "match_node_with_env", "find", "find_all", "find_node", "matches"}


def fam_calls(prog, f):
    return [c for g in prog.family(f) for c in g.calls if c.bb in g.live_blocks]


def run(ctx):
    prog = ctx.prog
    ctx.rule("R1", "finding funnel: matches come only from CombinedScan::scan over collection-selected rules, with the unused-suppression rule registered")
    ctx.rule("R2", "message funnel: rule messages are rendered only through RuleConfig::get_message")
    ctx.rule("R4", "no finding is dropped between the scan result and the listing (loops reach their emit on every iteration; pipelines have no dropping adaptor)")
    ctx.rule("R5", "the range of a finding is the matched node's range in every listing (never the fix's range)")
    ctx.rule("R6", "the file front end scans the file's own text (what --stdin and the language server receive verbatim), so ranges agree")
    from .c18 import read_file_identity
    read_file_identity(ctx, "R6")
    # every front end matches with the WHOLE rule — RuleCore / RuleConfig, i.e. rule + constraints + transform — never with the bare `Rule`
    # tree that RuleCore derefs to (`&rule_config.matcher` coerces silently to `&Rule` where a parameter asks for one): a front end that
    # searches with the bare tree ignores `constraints:` and reports findings the others do not
    bare = []
    n_m = 0
    for f in prog.fns.values():
        if f.crate not in ("ast_grep", "ast_grep_lsp"):
            continue
        for c in f.calls:
            if c.bb not in f.live_blocks or c.name not in ("find", "find_all", "matches", "replace", "replace_all", "make_edit", "generate", "match_node", "match_node_with_env", "has", "inside"):
                continue
            tys = [f.locals[a[1][0]] for a in c.args if a[0] != "k"]
            if any(re.match(r"^&?(mut )?ast_grep_config::(rule_core::RuleCore|rule_config::RuleConfig)<", t) for t in tys):
                n_m += 1
            if any(re.match(r"^&?(mut )?ast_grep_config::rule::Rule<", t) for t in tys):
                bare.append((f, c))
    ctx.floor("R1", "front-end matcher calls with a whole rule", n_m, 4)
    ctx.ob("R1", "no front end searches with the bare Rule tree", not bare,
           "%d matcher call(s) in the cli/lsp take a RuleCore/RuleConfig; none takes a bare Rule" % n_m if not bare else
           "%s calls %s with a bare `Rule` (RuleCore derefs to it): constraints and transform of the rule are skipped here, so this front end's findings/verdicts differ from the "
           "others for every rule with `constraints:`" % (bare[0][0].id, bare[0][1].name), where=bare[0][0].loc(bare[0][1].line) if bare else None)
    ctx.rule("R7", "rule selection is the same for every front end: RuleCollection stores only rules that are not off, keeps one bucket per language (readers take the first), "
             "and every whole-collection accessor visits both the unscoped and the path-scoped rules")
    from . import rulecoll
    rulecoll.invariants(ctx, "R7", which=("rc1", "rc2", "rc3", "rc4", "rc5"))
    # the language server selects rules and the language by the document's FILE path (Url::to_file_path: percent-decoded, platform form),
    # as the CLI does by the path it walked — never by the URI's raw path component
    n_p = 0
    for f in prog.fns.values():
        if f.crate != "ast_grep_lsp":
            continue
        for c in f.calls:
            if c.bb not in f.live_blocks or not (c.best.endswith("RuleCollection::<L>::for_path") or c.best.endswith("language::Language::from_path")):
                continue
            n_p += 1
            arg = c.args[-1]
            names = set()
            seen = set()
            def walk(op, depth=0):
                if op[0] == "k" or depth > 12:
                    return
                for o in f.trace_operand(op):
                    k = (o.kind, o.ref if isinstance(o.ref, (int, str)) else id(o.ref))
                    if k in seen:
                        continue
                    seen.add(k)
                    if o.kind == "call":
                        names.add(o.ref.best if "url::" in o.ref.best else o.ref.name)
                        for a in o.ref.args:
                            walk(a, depth + 1)
                    elif o.kind == "agg":
                        for sub in o.ref[2][2]:
                            walk(sub, depth + 1)
            walk(arg)
            raw = sorted(x for x in names if x.startswith("url::") and not x.endswith("to_file_path"))
            ok = any(x.endswith("url::Url::to_file_path") for x in names) and not raw
            ctx.ob("R7", "%s/%s receives the decoded file path" % (f.id, c.name), ok,
                   "the path comes from Url::to_file_path" if ok else
                   "the path handed to %s comes from %s: a URI with an escaped character (space, non-ASCII) no longer matches the workspace base / the rules' files globs, so the language "
                   "server lists other findings than `sg scan` for the same text" % (c.name, raw or sorted(names)[:4]), where=f.loc(c.line))
    ctx.floor("R7", "LSP lookups by path", n_p, 2)
    ctx.rule("R3", "LSP: stale document versions are ignored; the stored version is the one published; close removes the entry")
    fronts = [
        (r"^<ast_grep::scan::ScanWithConfig as ast_grep::utils::worker::PathWorker>::produce_item$", "get_rule_from_lang"),
        (r"^<ast_grep::scan::ScanStdin as ast_grep::utils::worker::StdInWorker>::parse_stdin$", None),
        (r"^ast_grep_lsp::Backend::<L>::get_diagnostics$", "get_rules"),
    ]
    for pat, selector in fronts:
        f = ctx.anchor("R1", pat)
        if not f:
            continue
        f = prog.inlined(f, keep=("get_rules", "get_rule_from_lang", "for_path"))  # e.g. the CombinedScan construction extracted into a private helper
        calls = fam_calls(prog, f)
        scans = [c for c in calls if c.best.endswith("CombinedScan::<'r, L>::scan")]
        news = [c for c in calls if c.best.endswith("CombinedScan::<'r, L>::new")]
        direct = [c for c in calls if c.name in DIRECT_MATCH and ((c.callee.get("trait") or "").endswith(("::Matcher", "::MatcherExt")) or "ast_grep_core::node::Node" in c.best)]
        ctx.ob("R1", "%s/scan funnel" % f.name_short() if hasattr(f, "name_short") else "%s/scan funnel" % f.id, len(scans) >= 1 and len(news) >= 1 and not direct,
               "findings come from CombinedScan::scan (%d call) on a CombinedScan::new (%d); direct matcher calls: %s" % (len(scans), len(news), [c.best for c in direct][:3]), where=f.loc())
        sup = [c for c in calls if c.name == "set_unused_suppression_rule"]
        ctx.ob("R1", "%s/unused-suppression rule registered" % f.id, bool(sup) and bool(scans) and all(any(c.fn is s.fn and c.fn.dominates(c.bb, s.bb) for c in sup) for s in scans),
               "set_unused_suppression_rule dominates scan", where=f.loc())
        if selector and news:
            roots = deep_roots(prog, news[0].fn, news[0].args[0], TRANSPARENT | {"collect", "iter", "branch"})
            ok = any(o.kind == "call" and o.ref.name == selector for o in roots)
            ctx.ob("R1", "%s/rules selected by %s" % (f.id, selector), ok, "CombinedScan::new receives %s" % "; ".join(describe_origin(news[0].fn, o) for o in roots)[:200], where=f.loc(news[0].line))
        # the scanned document and the CombinedScan belong together: scan receiver is the `new` result
        if scans and news:
            r = deep_roots(prog, scans[0].fn, scans[0].args[0])
            ctx.ob("R1", "%s/scan on the combined rules just built" % f.id, any(o.kind == "call" and o.ref in news for o in r), "scan receiver is the CombinedScan built here", where=f.loc(scans[0].line))
    gr = prog.find_fns(r"^ast_grep_lsp::Backend::<L>::get_rules$")
    if len(gr) == 1:
        names = {c.name for c in fam_calls(prog, gr[0])}
        ctx.ob("R1", "lsp get_rules uses RuleCollection::for_path", "for_path" in names, "Backend::get_rules calls %s" % sorted(n for n in names if n in ("for_path", "get_rule_from_lang", "to_file_path")), where=gr[0].loc())
    else:
        ctx.ob("R1", "lsp get_rules anchor", False, "found %d" % len(gr))
    # test runner
    for pat in (r"^ast_grep::verify::case_result::CaseStatus::<'a>::verify_valid$", r"^ast_grep::verify::case_result::CaseStatus::<'a>::verify_invalid$", r"^ast_grep::verify::snapshot::TestSnapshot::generate$"):
        f = ctx.anchor("R1", pat)
        if not f:
            continue
        finds = [c for c in f.calls if c.name in ("find", "find_all") and "Node" in c.best]
        ok = bool(finds)
        for c in finds:
            roots = deep_roots(prog, f, c.args[1])
            if not any(o.kind == "param" and field_path(o.proj)[:1] == ["matcher"] for o in roots):
                ok = False
        ctx.ob("R1", "%s matches with rule_config.matcher" % f.id, ok, "test runner calls find(&rule_config.matcher) — the same RuleCore the scanners run", where=f.loc())
    # ---- R2 -------------------------------------------------------------------------------------
    gm = ctx.anchor("R2", r"^ast_grep_config::rule_config::RuleConfig::<L>::get_message$")
    readers = set()
    for f in prog.fns.values():
        if not f.crate.startswith("ast_grep") or f.crate in ("ast_grep_napi", "ast_grep_py"):
            continue
        for b in f.blocks:
            hit = False
            for s in b["s"]:
                if s[0] == "A" and ".message|ast_grep_config::rule_config::SerializableRuleConfig" in repr(s):
                    hit = True
            t = b["t"]
            if t[0] == "call" and ".message|ast_grep_config::rule_config::SerializableRuleConfig" in repr(t[2]):
                hit = True
            if hit:
                readers.add(f.id)
    allowed = {
        "ast_grep_config::rule_config::RuleConfig::<L>::get_message": "the funnel",
        "ast_grep_lsp::utils::get_non_empty_message": "observation: is_empty() test only, falls back to the rule id when the message is empty (an empty diagnostic is dropped by editors)",
        "ast_grep_config::combined::CombinedScan::<'r, L>::unused_config": "constructs the built-in unused-suppression rule",
    }
    for r in sorted(readers):
        f = prog.fns[r]
        if f.impl_trait in ("serde::ser::Serialize", "core::clone::Clone", "serde::de::Deserialize", "schemars::JsonSchema", "core::fmt::Debug"):
            continue
        ctx.ob("R2", "reader of rule.message: %s" % r, r in allowed, allowed.get(r, "raw read of the message field outside get_message: variables would not be substituted / transforms not applied"), where=f.loc(), nontrivial=False)
    # the one reader that is allowed "for an emptiness test only" really only tests: the field is the receiver of is_empty()/len(), never
    # cloned, formatted or returned (a shortcut that publishes rule.message verbatim skips variable substitution and re-indentation)
    for f in prog.find_fns(r"^ast_grep_lsp::utils::get_non_empty_message$"):
        fi = prog.inlined(f)
        def from_message(op):
            return op[0] != "k" and any(o.kind == "param" and "message" in field_path(o.proj) for o in deep_roots(prog, fi, op, TRANSPARENT))
        uses = sorted({c.name for c in fi.calls if c.bb in fi.live_blocks and any(from_message(a) for a in c.args)})
        bad = [u for u in uses if u not in ("is_empty", "len", "deref", "as_str", "as_ref", "borrow")]
        ret = from_message(["c", [0, []]])
        ctx.ob("R2", "get_non_empty_message reads rule.message for an emptiness test only", not bad and not ret,
               "the field only feeds %s" % uses if not bad and not ret else
               "rule.message itself flows into %s%s: the language server publishes the raw template for some matches (unbound `$VAR` stays literal, multi-line messages are not re-indented) "
               "while every CLI front end renders it" % (bad, " and into the returned string" if ret else ""), where=f.loc())
    # downstream of the funnel: the message a listing carries is get_message's result as it is (no front end trims, truncates, re-wraps it)
    from ..query import identity_flow
    n_msg = 0
    for adt, field in ((r"^ast_grep::print::json_print::RuleMatchJSON$", "message"), (r"^lsp_types::Diagnostic$", "message")):
        for f, bi, si, st in prog.aggregates_of(adt):
            if f.impl_trait or not f.crate.startswith("ast_grep"):
                continue
            ops = dict(zip(st[2][1]["fields"], st[2][2]))
            if field not in ops:
                continue
            n_msg += 1
            terms, foreign = identity_flow(prog, f, ops[field], lambda g, o: o.kind == "call" and o.ref.name in ("get_message", "get_non_empty_message"))
            ok = bool(terms) and not foreign
            ctx.ob("R2", "%s.%s in %s" % (adt.strip("^$").rsplit("::", 1)[-1], field, f.id), ok,
                   "the message is the renderer's result as it is" if ok else
                   "the message listed by this front end is not RuleConfig::get_message's result as it is (passes through %s): its findings differ in text from the other front ends'" % sorted(set(foreign)), where=f.loc(st[3]))
    ctx.floor("R2", "listings that carry a rendered message", n_msg, 2)
    for f in prog.find_fns(r"^ast_grep_lsp::utils::get_non_empty_message$"):
        terms, foreign = identity_flow(prog, f, ["c", [0, []]], lambda g, o: o.kind == "call" and o.ref.name == "get_message")
        foreign = [x for x in foreign if x not in ("to_string", "must_use", "format", "fmt") and not x.startswith("parameter")]   # the rule id fallback; a raw read of rule.message is the obligation above
        ok = bool(terms) and not foreign
        ctx.ob("R2", "get_non_empty_message returns the rendered message or the rule id", ok,
               "returns get_message(..) as it is (or the rule id when the message is empty)" if ok else "the returned text also comes from %s" % sorted(set(foreign)), where=f.loc())
    # a renderer that loops over the matches of a rule renders the message of EACH match (variables differ per match): no call of
    # get_message outside the loop whose result is reused
    for f in prog.find_fns(r"print_rule$"):
        if f.crate != "ast_grep" or not any(c.name == "get_message" for c in f.calls):
            continue
        loops = f.loop_blocks()
        if not loops:
            continue
        out = [c for c in f.calls if c.name == "get_message" and c.bb in f.live_blocks and c.bb not in loops]
        ctx.ob("R2", "%s renders the message per match" % f.id, not out,
               "every get_message call is inside the loop over the matches" if not out else
               "get_message is called once outside the loop over the matches (%s) and its result reused: later matches are listed with the first match's variables" % f.loc(out[0].line), where=f.loc())
    if gm:
        renderers = [r"^ast_grep::print::json_print::RuleMatchJSON::<.*>::new$", r"^ast_grep::print::cloud_print::print_rule$", r"^<ast_grep::print::colored_print::ColoredProcessor as .*>::print_rule$",
                     r"^ast_grep_lsp::utils::get_non_empty_message$"]
        for pat in renderers:
            fs = prog.find_fns(pat)
            if len(fs) != 1:
                ctx.ob("R2", "renderer anchor %s" % pat, False, "found %d functions" % len(fs))
                continue
            reach = prog.reach([fs[0].id])
            ctx.ob("R2", "%s renders through get_message" % fs[0].id, gm.id in reach, "reaches RuleConfig::get_message: %s" % (gm.id in reach), where=fs[0].loc())
    # ---- R3 -------------------------------------------------------------------------------------
    oc = ctx.anchor("R3", r"^ast_grep_lsp::Backend::<L>::on_change::\{closure#0\}$")
    if oc:
        _ = oc.succ
        cmps = [bi for bi in oc.live_blocks for s in oc.blocks[bi]["s"] if s[0] == "A" and s[2][0] == "bin" and s[2][1] in ("Gt", "Lt", "Ge", "Le")
                and any("version" in field_path(o.proj) for op in (s[2][2], s[2][3]) if op[0] != "k" for ff, o in ultimate_roots(prog, oc, op, TRANSPARENT | {"deref", "deref_mut"}))]
        stores = [bi for bi in oc.live_blocks for s in oc.blocks[bi]["s"] if s[0] == "A" and s[2][0] == "agg" and "VersionedAst" in s[2][1].get("adt", "")]
        pubs = [c for c in oc.calls if c.name == "publish_diagnostics" and c.bb in oc.live_blocks]
        ok = bool(cmps) and bool(stores) and bool(pubs) and all(any(oc.dominates(c, s) for c in cmps) for s in stores) and all(any(oc.dominates(c, p.bb) for c in cmps) for p in pubs)
        ctx.ob("R3", "version test dominates store and publish", ok, "%d version comparison(s); %d store(s) of a new VersionedAst; %d publish call(s): comparison dominates both" % (len(cmps), len(stores), len(pubs)), where=oc.loc())
        # the stale arm returns without storing: from the comparison's true/false arm that returns None, no store reachable
        stale_ok = False
        for c in cmps:
            si = oc.switch_info(c)
            if si and "true" in si["arms"]:
                for arm in ("true", "false"):
                    blocks = oc.reachable_from(si["arms"][arm])
                    if not (set(stores) & blocks) and not any(p.bb in blocks for p in pubs):
                        stale_ok = True
        ctx.ob("R3", "stale arm neither stores nor publishes", stale_ok, "one arm of the version comparison reaches neither the store nor publish_diagnostics", where=oc.loc())
        # once the incoming version is accepted it must be recorded: no return between the test and the store.
        # (an accepted-but-unrecorded version lets a later stale version pass the test)
        rec_ok = False
        detail = "accept arm not identified"
        for c in cmps:
            si = oc.switch_info(c)
            if si and "true" in si["arms"]:
                for arm in ("true", "false"):
                    start = si["arms"][arm]
                    blocks = oc.reachable_from(start)
                    if set(stores) & blocks:  # the accept arm
                        rets = [b for b in oc.return_blocks()]
                        escaped = path_avoiding(oc, start, stores, rets)
                        rec_ok = not escaped
                        detail = "every path from the accepted-version arm to a return passes the store of VersionedAst { version: incoming, .. }" if rec_ok else "the handler can return after accepting a version WITHOUT recording it (an early return between the version test and the store): the stored version then lags behind the highest version received and a later stale update passes the test"
        ctx.ob("R3", "an accepted version is always recorded", rec_ok, detail, where=oc.loc())
        # the stored version is the incoming one
        vok = False
        for bi in stores:
            for st in oc.blocks[bi]["s"]:
                if st[0] == "A" and st[2][0] == "agg" and "VersionedAst" in st[2][1].get("adt", ""):
                    ops = dict(zip(st[2][1]["fields"], st[2][2]))
                    roots = ultimate_roots(prog, oc, ops["version"], TRANSPARENT | {"deref"})
                    vok = any("version" in field_path(o.proj) and "text_document" in "".join(map(str, o.proj)) or ("version" in field_path(o.proj) and not any("get_mut" in str(x) for x in o.proj)) for ff, o in roots)
        ctx.ob("R3", "the version stored is the incoming document version", vok, "VersionedAst.version is taken from the notification's text_document.version", where=oc.loc())
        # what is published is the stored entry
        if pubs:
            roots = ultimate_roots(prog, oc, pubs[0].args[2], TRANSPARENT | {"deref", "deref_mut"})
            gmut = any((o.kind == "call" and o.ref.name == "get_mut") or "()get_mut" in o.proj for ff, o in roots)
            ctx.ob("R3", "published tree is the stored entry", gmut, "publish_diagnostics receives the map entry obtained by get_mut (after the store)", where=oc.loc(pubs[0].line))
    pd = ctx.anchor("R3", r"^ast_grep_lsp::Backend::<L>::publish_diagnostics::\{closure#0\}$")
    if pd:
        pubs = [c for c in pd.calls if c.name == "publish_diagnostics"]
        ok = False
        for c in pubs:
            if len(c.args) >= 4:
                roots = ultimate_roots(prog, pd, c.args[3], TRANSPARENT)
                for ff, o in list(roots):
                    if o.kind == "agg" and o.ref[2][1].get("variant") == "Some":
                        roots += ultimate_roots(prog, ff, o.ref[2][2][0], TRANSPARENT | {"deref"})
                ok = ok or any("version" in field_path(o.proj) for ff, o in roots)
        ctx.ob("R3", "published version is the document's stored version", ok, "client.publish_diagnostics(.., Some(versioned.version))", where=pd.loc())
        # every accepted version is published: no return of Backend::publish_diagnostics without the client call (a "nothing changed,
        # do not redraw" shortcut keyed on ranges and rule ids leaves the messages / fixes of the previous version on screen)
        pdi = prog.inlined(pd)
        pubs_i = [c for c in pdi.calls if c.name == "publish_diagnostics" and c.bb in pdi.live_blocks]
        rets = [b for b in pdi.live_blocks if pdi.blocks[b]["t"][0] == "ret"]
        skip = (not pubs_i) or path_avoiding(pdi, 0, {c.bb for c in pubs_i}, rets)
        ctx.ob("R3", "every call of Backend::publish_diagnostics reaches the client", not skip,
               "no return is reachable from the entry without client.publish_diagnostics" if not skip else
               "Backend::publish_diagnostics can return without telling the client: the diagnostics on screen stay those of an older version of the document", where=pd.loc())
    cl = prog.find_fns(r"^ast_grep_lsp::Backend::<L>::on_close::\{closure#0\}$")
    if len(cl) == 1:
        ctx.ob("R3", "close removes the entry", any(c.name == "remove" for c in cl[0].calls), "on_close calls map.remove(uri)", where=cl[0].loc())
    else:
        ctx.ob("R3", "on_close anchor", False, "found %d" % len(cl))

    r4(ctx)
    r5(ctx)
    # `sg test` decides with a plain find(matcher), the scanners with the combined scan's kind index: they agree only if the index
    # is complete (C01 R6's obligations on CombinedScan, re-used here)
    from . import c01
    from ..core import Ctx
    sub = Ctx("C01", ctx.tier, prog)
    c01.r6(sub)
    for o in sub.obligations:
        if "CombinedScan" in o["key"]:
            ctx.ob("R1", "index agreement/" + o["key"].split(":", 1)[1], o["ok"], o["detail"], where=o["where"], nontrivial=o.get("nontrivial", True))


PP = r"^<ast_grep::print::%s as ast_grep::print::PrintProcessor<alloc::vec::Vec<u8>>>::%s$"
# (function, emit call names per loop, pipelines: (sink call name, index of the iterator/collection argument))
R4_SITES = [
    (r"^<ast_grep::scan::ScanWithConfig as ast_grep::utils::worker::PathWorker>::produce_item$", ["scan", "match_rule_on_file"], []),
    (r"^<ast_grep::scan::ScanStdin as ast_grep::utils::worker::StdInWorker>::parse_stdin$", ["match_rule_on_file"], []),
    (r"^ast_grep::scan::match_rule_on_file$", [], [("print_rule_diffs", 1), ("print_rule", 1)]),
    (PP % ("json_print::JSONProcessor", "print_rule"), [], [("print_docs", 1)]),
    (PP % ("json_print::JSONProcessor", "print_rule_diffs"), [], [("print_docs", 1)]),
    (PP % ("json_print::JSONProcessor", "print_matches"), [], [("print_docs", 1)]),
    (PP % ("json_print::JSONProcessor", "print_diffs"), [], [("print_docs", 1)]),
    (r"^ast_grep::print::json_print::JSONProcessor::print_docs$", ["to_writer", "to_writer_pretty"], []),
    (PP % ("cloud_print::CloudProcessor", "print_rule"), ["print_rule"], []),
    (PP % ("cloud_print::CloudProcessor", "print_rule_diffs"), ["print_rule"], []),
    (r"^ast_grep_lsp::Backend::<L>::get_diagnostics$", ["extend"], [("extend", 1)]),
    # the single printing thread: every item a producer sent is handed to the printer
    (r"^<ast_grep::scan::ScanWithConfig as ast_grep::utils::worker::Worker>::consume_items$", ["process"], []),
    (r"^<ast_grep::scan::ScanStdin as ast_grep::utils::worker::Worker>::consume_items$", ["process"], []),
    (r"^<ast_grep::run::RunWithInferredLang as ast_grep::utils::worker::Worker>::consume_items$", ["process"], []),
    (r"^<ast_grep::run::RunWithSpecificLang as ast_grep::utils::worker::Worker>::consume_items$", ["process"], []),
]


def r4(ctx):
    prog = ctx.prog
    nloops = npipes = 0
    for pat, emits, pipes in R4_SITES:
        f = ctx.anchor("R4", pat)
        if not f:
            continue
        short = f.id.split(" as ")[0].lstrip("<").split("::")[-1] + "::" + f.name if " as " in f.id else f.id.split("::", 1)[1]
        if emits:
            found = set()
            seen_keys = {}
            for c, es, skipping, has_some in loops_reaching(f, set(emits)):
                nloops += 1
                en = "|".join(sorted({e.name for e in es}))
                seen_keys[en] = seen_keys.get(en, 0) + 1
                found |= {e.name for e in es}
                ctx.ob("R4", "%s/every item reaches %s%s" % (short, en, "" if seen_keys[en] == 1 else "#%d" % seen_keys[en]), has_some and not skipping,
                       "each iteration passes the emit call before the next item is fetched" if has_some and not skipping else
                       "an item can be skipped: from bb%s the loop head is reachable without passing %s — that finding is silently missing from this front end's listing" % (skipping, sorted({e.name for e in es})),
                       where=f.loc(c.line))
            if f.name == "print_docs":
                # the first document is taken with next() outside the loops: it must be emitted as well
                firsts = [c for c in f.calls if c.name == "next" and not f.in_loop(c.bb)]
                ems = [e.bb for e in f.calls if e.name in emits]
                heads = [c.bb for c in f.calls if c.name == "next" and f.in_loop(c.bb)]
                from ..query import option_arms
                ok = bool(firsts)
                for c in firsts:
                    for s in option_arms(f, c)["some"]:
                        if path_avoiding(f, s, ems, heads + list(f.return_blocks())):
                            ok = False
                ctx.ob("R4", "%s/first document emitted" % short, ok, "the document taken before the loops is serialised on every style arm", where=f.loc())
                found |= set(emits) & {e.name for e in f.calls}
            # the same loop written as an iterator pipeline: the emit sits in a closure handed to for_each/try_for_each/map
            for g in prog.closures_of(f):
                es = [c for c in g.calls if c.name in emits and c.bb in g.live_blocks]
                if not es or {e.name for e in es} <= found:
                    continue
                from ..query import closure_consumer
                cons = closure_consumer(prog, g)
                if not cons or cons[1].name not in ("for_each", "try_for_each", "map", "flat_map", "filter_map"):
                    continue
                nloops += 1
                found |= {e.name for e in es}
                pf, pc, ai = cons
                ad, lv = iter_chain(prog, pf, pc.args[0])
                drop = sorted(({x[1].name for x in ad} | {pc.name}) & DROPPING_ITER)
                skip = path_avoiding(g, 0, [e.bb for e in es], list(g.return_blocks()))
                en = "|".join(sorted({e.name for e in es}))
                ctx.ob("R4", "%s/every item reaches %s" % (short, en), not drop and not skip,
                       "items flow through %s into a closure that emits on every path" % sorted({x[1].name for x in ad} | {pc.name}) if not drop and not skip else
                       "an item can be dropped (%s) before %s" % (drop or "a path through the closure avoids the emit", en), where=g.loc())
            missing = [e for e in emits if e not in found]
            if missing and f.name == "get_diagnostics":
                # the same thing as one expression: `matches.into_iter().flat_map(|(rule, ms)| ms.into_iter().map(..)).collect()`
                ok_chain, names = returned_pipeline(prog, f)
                if ok_chain is not None:
                    nloops += 1
                    npipes += 1
                    ctx.ob("R4", "%s/every item reaches %s" % (short, "|".join(emits)), ok_chain,
                           "the returned diagnostics are collected from the scan result through %s — no element-dropping adaptor" % names if ok_chain else
                           "the returned diagnostics pass through a dropping adaptor (%s)" % names, where=f.loc())
                    ctx.ob("R4", "%s/pipeline into extend#0" % short, ok_chain, "one expression: %s" % names, where=f.loc(), nontrivial=False)
                    missing = []
                    pipes = []
            ctx.ob("R4", "%s/loops found" % short, not missing, "loops driving %s identified" % emits if not missing else "no next()-driven loop around %s (anchor lost: fail closed)" % missing, where=f.loc(), nontrivial=False)
        for sink, ai in pipes:
            calls = [c for g in prog.family(f) for c in g.calls if c.name == sink and c.bb in g.live_blocks and len(c.args) > ai]
            if sink == "print_rule" and not calls:
                continue
            for c in calls:
                npipes += 1
                ad, lv = iter_chain(prog, c.fn, c.args[ai])
                names = sorted({x[1].name for x in ad})
                drop = sorted(set(names) & DROPPING_ITER)
                ctx.ob("R4", "%s/pipeline into %s#%d" % (short, sink, calls.index(c)), not drop,
                       "findings reach %s through %s — no element-dropping adaptor" % (sink, names or "a plain move") if not drop else
                       "findings pass through %s on their way to %s: some are never listed by this front end" % (drop, sink), where=c.fn.loc(c.line))
    ctx.floor("R4", "finding loops", nloops, 13)
    ctx.floor("R4", "finding pipelines", npipes, 7)


def r5(ctx):
    prog = ctx.prog
    # …and its columns are CHARACTER columns everywhere (Position::column): tree-sitter's raw point (byte column) is only for handing
    # ranges back to tree-sitter (injections); a listing that takes `ts_point().column()` agrees with the others on ASCII lines only
    prog_ = ctx.prog
    raw = [c for c in prog_.who_calls(r"ast_grep_core::node::Position::ts_point$|tree_sitter_facade_sg::point::native::Point::(column|row)$")
           if c.fn.crate in ("ast_grep", "ast_grep_lsp") and (c.fn.file.startswith("crates/cli/src/print/") or c.fn.crate == "ast_grep_lsp" or c.fn.file.startswith("crates/cli/src/verify/"))]
    ctx.ob("R5", "listings take columns from Position::column (characters), never from the raw tree-sitter point", not raw,
           "no ts_point()/Point::column in the printers, the test runner or the language server" if not raw else
           "%s reads the raw tree-sitter point: its column is a BYTE column, the other front ends report character columns — ranges differ on every line with a non-ASCII character "
           "before the match" % raw[0].fn.id, where=raw[0].fn.loc(raw[0].line) if raw else None)
    sites = (
        (r"^ast_grep_lsp::utils::convert_match_to_diagnostic$", r"lsp_types::Diagnostic$", "convert_node_to_range", 1),
        (r"^ast_grep::print::json_print::MatchJSON::<'a>::new$", r"json_print::MatchJSON$", "get_range", 1),
    )
    for fpat, adt, helper, node_param in sites:
        f = ctx.anchor("R5", fpat)
        if not f:
            continue
        aggs = [(g, st) for g, bi, si, st in prog.aggregates_of(adt) if g is f or g.root == f.id]
        ok = bool(aggs)
        detail = "no %s literal found" % adt
        for g, st in aggs:
            ops = dict(zip(st[2][1]["fields"], st[2][2]))
            if "range" not in ops or ops["range"][0] == "k":
                ok, detail = False, "range field is a constant / missing"
                continue
            roots = ultimate_roots(prog, g, ops["range"], set())
            bad = []
            for ff, o in roots:
                if o.kind == "call" and o.ref.name == helper and o.ref.args:
                    src = ultimate_roots(prog, ff, o.ref.args[0], TRANSPARENT | {"deref"})
                    if all(f2 is f and o2.kind == "param" and o2.ref == node_param for f2, o2 in src) and src:
                        continue
                bad.append(describe_origin(ff, o))
            if bad or not roots:
                ok = False
            detail = "range = %s(matched node)" % helper if not bad else "the finding's range can also come from %s — e.g. the range a fix replaces, which differs from the matched node for fixes with expandStart/expandEnd: this front end then lists other ranges than the others" % bad[:3]
        ctx.ob("R5", "%s/range is the matched node's" % f.name, ok, detail, where=f.loc())
    # the diff variant of the JSON record keeps the match's range too: it is built on top of MatchJSON::new
    df = ctx.anchor("R5", r"^ast_grep::print::json_print::MatchJSON::<'a>::diff$")
    if df:
        news = [c for c in df.calls if c.best.endswith("MatchJSON::<'a>::new")]
        wr = [1 for bi in df.live_blocks for st in df.blocks[bi]["s"] if st[0] == "A" and "range" in field_path(st[1][1]) and ".range|ast_grep::print::json_print::MatchJSON" in repr(st[1])]
        ctx.ob("R5", "MatchJSON::diff keeps the match's range", bool(news) and not wr, "diff() starts from MatchJSON::new(node_match) and does not overwrite `range` (replacement offsets live in their own field)", where=df.loc())


def returned_pipeline(prog, f):
    """for a function returning Some(collection): (no dropping adaptor on the way from its sources, adaptor names); flat_map is
    accepted when the iterator its closure returns has no dropping adaptor either.  (None, …) if the shape is not recognised."""

    ops = []
    for bi in sorted(f.live_blocks):
        for st in f.blocks[bi]["s"]:
            if st[0] == "A" and st[1][0] == 0 and not st[1][1] and st[2][0] == "agg" and st[2][1].get("variant") == "Some" and st[2][2]:
                ops.append(st[2][2][0])
    if len(ops) != 1:
        return None, []
    ad, lv = iter_chain(prog, f, ops[0])
    names = sorted({x[1].name for x in ad})
    if "collect" not in names:
        return None, names
    bad = set(names) & (DROPPING_ITER - {"flat_map"})
    for ff, c in ad:
        if c.name == "flat_map":
            for g in prog.closures_of(ff):
                cons = None
                from ..query import closure_consumer
                cons = closure_consumer(prog, g)
                if cons and cons[1] is c:
                    # what the closure returns
                    for bi in sorted(g.live_blocks):
                        c2 = g.call_at(bi)
                        if c2 is not None and c2.dest and c2.dest[0] == 0:
                            ad2, _ = iter_chain(prog, g, c2.args[0]) if c2.args else ([], [])
                            inner = {c2.name} | {x[1].name for x in ad2}
                            names += sorted(inner)
                            bad |= (inner - {"flat_map"}) & DROPPING_ITER
    return not bad, sorted(set(names))
