"""Check context: obligations, violations, known-findings matching, evidence writing."""
import json
import os
import time

VERIF = os.path.dirname(os.path.dirname(os.path.abspath(__file__)))
KNOWN = os.path.join(VERIF, "known_findings.json")
EVID = os.path.join(VERIF, "evidence")


class Ctx:
    def __init__(self, pid, tier, prog, only_key=None):
        self.pid = pid
        self.tier = tier
        self.prog = prog
        self.obligations = []  # dicts
        self.violations = []
        self.notes = []
        self.floors = {}
        self.only_key = only_key
        self.t0 = time.time()
        self.rules = {}
        self.extra = {}

    def rule(self, rid, text):
        self.rules[rid] = text

    def ob(self, rule, key, ok, detail, where=None, nontrivial=True, facts=None):
        """record one decided rule instance. key must be line-number free."""
        full = "%s:%s" % (rule, key)
        o = {
            "rule": rule,
            "key": full,
            "ok": bool(ok),
            "detail": detail,
            "where": where,
            "nontrivial": nontrivial,
        }
        if facts is not None:
            o["facts"] = facts
        self.obligations.append(o)
        if not ok:
            self.violations.append(o)
        return ok

    def floor(self, rule, what, count, floor):
        """fail closed when a rule enumerates fewer instances than were counted by hand"""
        self.floors["%s/%s" % (rule, what)] = {"count": count, "floor": floor}
        if count < floor:
            self.ob(rule, "floor/%s" % what, False,
                    "rule %s enumerated %d %s, fewer than the floor %d counted on the reviewed tree: the rule has gone blind or an anchor moved" % (rule, count, what, floor),
                    nontrivial=False)

    def note(self, s):
        self.notes.append(s)

    def anchor(self, rule, pattern):
        """find exactly one function or record a fail-closed violation"""
        r = self.prog.find_fns(pattern)
        if len(r) != 1:
            self.ob(rule, "anchor/%s" % pattern, False,
                    "anchor function %r resolved to %d functions (%s); the rule cannot be decided" % (pattern, len(r), [f.id for f in r][:5]),
                    nontrivial=False)
            return None
        return r[0]


def load_known():
    if not os.path.exists(KNOWN):
        return []
    with open(KNOWN) as fh:
        return json.load(fh)["findings"]


def finish(ctx, explanation, not_decided, trusted, level="other"):
    """print report, write evidence, return exit code"""
    known = [k for k in load_known() if k["property"] == ctx.pid]
    known_keys = {k["key"]: k for k in known if k["status"] == "known"}
    real = []
    matched_known = []
    for v in ctx.violations:
        if ctx.only_key and v["key"] != ctx.only_key:
            continue
        if v["key"] in known_keys:
            matched_known.append(v)
        else:
            real.append(v)
    os.makedirs(os.path.join(EVID, "replay"), exist_ok=True)
    for v in matched_known:
        print("KNOWN-FINDING: property=%s %s — %s" % (ctx.pid, v["key"], known_keys[v["key"]]["what"]))
    # a listed known finding that no longer fires is reported as information (it may have been fixed)
    fired = {v["key"] for v in ctx.violations}
    for k in known_keys:
        if k not in fired:
            print("note: known finding %s did not fire on this tree" % k)
    n = 0
    for v in real:
        n += 1
        rp = os.path.join(EVID, "replay", "%s-%d.json" % (ctx.pid, n))
        with open(rp, "w") as fh:
            json.dump({"property": ctx.pid, "rule": v["rule"], "key": v["key"], "where": v["where"], "detail": v["detail"],
                       "facts": v.get("facts"), "rule_text": ctx.rules.get(v["rule"], "")}, fh, indent=1)
        print("VIOLATION property=%s replay=%s" % (ctx.pid, rp))
        print("   rule  : %s — %s" % (v["rule"], ctx.rules.get(v["rule"], "")))
        print("   key   : %s" % v["key"])
        print("   where : %s" % v["where"])
        print("   detail: %s" % v["detail"])
    obs = ctx.obligations
    discharged = sum(1 for o in obs if o["ok"])
    nontriv = len({o["key"] for o in obs if o["nontrivial"]})
    per_rule = {}
    for o in obs:
        r = per_rule.setdefault(o["rule"], {"instances": 0, "ok": 0})
        r["instances"] += 1
        r["ok"] += 1 if o["ok"] else 0
    samples = []
    seen_rules = set()
    for o in obs:
        if o["rule"] not in seen_rules and o["nontrivial"]:
            seen_rules.add(o["rule"])
            samples.append({k: o[k] for k in ("rule", "key", "ok", "where", "detail")})
    for o in obs:
        if len(samples) >= 14:
            break
        if o["nontrivial"] and o not in samples:
            samples.append({k: o[k] for k in ("rule", "key", "ok", "where", "detail")})
    prog = ctx.prog
    ev = {
        "property_id": ctx.pid,
        "tier": ctx.tier,
        "seed": int(os.environ.get("VERIF_SEED", "0") or 0),
        "level": level,
        "coverage": {
            "explanation": explanation,
            "not_decided": not_decided,
            "obligations": len(obs),
            "discharged": discharged,
            "evaluations": len(obs),
            "distinct_nontrivial": nontriv,
            "rule": "one obligation = one rule instance enumerated from the MIR/type facts of /repo's current tree; non-trivial = decided by a CFG/provenance/call-graph query rather than a presence or count test; distinct = distinct instance key",
            "rules": {r: {"text": ctx.rules.get(r, ""), **per_rule.get(r, {"instances": 0, "ok": 0})} for r in sorted(set(list(ctx.rules) + list(per_rule)))},
            "samples": samples,
            "floors": ctx.floors,
            "functions_analysed": len(prog.fns),
            "crates_analysed": prog.crates,
            "call_sites": prog.total_calls,
            "call_sites_overapproximated": prog.unresolved,
            "fact_tree_hash": prog.meta.get("tree"),
            "known_findings_matched": [v["key"] for v in matched_known],
            "checker_cmd": "./check %s %s" % (ctx.pid, ctx.tier),
            "trusted_base": trusted,
            "notes": ctx.notes,
            **ctx.extra,
        },
        "assumptions": trusted,
        "wall_s": round(time.time() - ctx.t0 + ctx.extra.get("extract_s", 0), 2),
        "violations": len(real),
    }
    with open(os.path.join(EVID, "%s.json" % ctx.pid), "w") as fh:
        json.dump(ev, fh, indent=1)
    print("%s %s: %d obligations, %d discharged, %d known findings, %d violations" % (
        ctx.pid, ctx.tier, len(obs), discharged, len(matched_known), len(real)))
    if os.environ.get("SG_VERBOSE"):
        for o in obs:
            print("   [%s] %s | %s | %s" % ("ok" if o["ok"] else "XX", o["key"], o["where"], o["detail"][:300]))
    for r, s in sorted(per_rule.items()):
        print("   %-8s %3d/%3d  %s" % (r, s["ok"], s["instances"], ctx.rules.get(r, "")[:110]))
    return 1 if real else 0
