"""Program model built from sgfacts JSON: functions (MIR CFGs), calls, ADTs, impls, call graph,
dominators, provenance.  Pure stdlib."""
import glob
import json
import os
import re
from collections import defaultdict, namedtuple

Origin = namedtuple("Origin", "kind ref proj")
# kind: 'param' (ref = arg index, 1-based local), 'call' (ref = Call), 'agg' (ref = (bb, si, rvalue)),
#       'const' (ref = const dict), 'static' (ref=path), 'local' (untraceable local; ref = local idx),
#       'op' (bin/un/discr/other rvalue; ref = rvalue)


def short(path):
    """last path segment of a def path (method / fn name)"""
    p = path
    # strip generic args at the end
    depth = 0
    out = []
    for ch in p:
        if ch == "<":
            depth += 1
        elif ch == ">":
            depth -= 1
        out.append(ch)
    seg = p.rsplit("::", 1)[-1]
    return seg


class Call:
    __slots__ = ("fn", "bb", "callee", "args", "dest", "target", "unwind", "line", "exp", "idx")

    def __init__(self, fn, bb, t, idx):
        self.fn = fn
        self.bb = bb
        self.callee = t[1]
        self.args = t[2]
        self.dest = t[3]
        self.target = t[4]
        self.unwind = t[5]
        self.line = t[6]
        self.exp = t[7]
        self.idx = idx

    @property
    def path(self):
        return self.callee.get("path")

    @property
    def res(self):
        return self.callee.get("res")

    @property
    def best(self):
        """resolved callee path if any, else declared path"""
        return self.callee.get("res") or self.callee.get("path") or "<indirect>"

    @property
    def name(self):
        p = self.callee.get("path")
        return p.rsplit("::", 1)[-1] if p else "<indirect>"

    @property
    def full(self):
        return self.callee.get("res_full") or self.callee.get("full") or "<indirect>"

    @property
    def trait(self):
        return self.callee.get("trait")

    @property
    def self_ty(self):
        return self.callee.get("self")

    def __repr__(self):
        return "Call(%s@bb%d -> %s L%d)" % (self.fn.id, self.bb, self.best, self.line)


class Fn:
    def __init__(self, d, crate):
        self.d = d
        self.id = d["id"]
        self.crate = crate
        self.kind = d["kind"]
        self.file = d["file"]
        self.line = d["line"]
        self.name = d.get("name") or self.id.rsplit("::", 1)[-1]
        self.impl_self = d.get("impl_self")
        self.impl_trait = d.get("impl_trait")
        self.trait_default = d.get("trait_default")
        self.root = d.get("root")
        self.parent = d.get("parent")
        self.vis = d.get("vis")
        self.nargs = d["nargs"]
        self.locals = d["locals"]
        self.names = d["names"]
        self.blocks = d["blocks"]
        self.is_closure = self.kind in ("Closure", "SyntheticCoroutineBody")
        self.is_coroutine = bool(d.get("coroutine"))
        self.is_async = bool(d.get("async"))
        self.calls = []
        for bi, b in enumerate(self.blocks):
            t = b["t"]
            if t[0] == "call":
                self.calls.append(Call(self, bi, t, len(self.calls)))
        self._call_at = {c.bb: c for c in self.calls}
        self._succ = None
        self._pred = None
        self._dom = None
        self._defs = None
        self._reach_cache = {}
        self.inlined_from = list(d.get("inlined_from", []))

    # ---- naming ------------------------------------------------------------------------
    def local_name(self, l):
        for n, p in self.names:
            if p[0] == l and not p[1]:
                return n
        return "_%d" % l

    def loc(self, line=None):
        return "%s:%s" % (self.file, line if line is not None else self.line)

    # ---- CFG ---------------------------------------------------------------------------
    def term_succs(self, bi, with_unwind=False):
        t = self.blocks[bi]["t"]
        k = t[0]
        out = []
        if k == "goto":
            out = [t[1]]
        elif k == "switch":
            cv = self._const_switch(bi, t[1])
            if cv is not None:
                tg = [b for v, b in t[2] if v == cv]
                out = tg[:1] if tg else [t[3]]
            else:
                out = [x[1] for x in t[2]] + [t[3]]
        elif k == "drop":
            out = [t[2]] + ([t[3]] if with_unwind and t[3] is not None else [])
        elif k == "call":
            if t[4] is not None:
                out.append(t[4])
            if with_unwind and t[5] is not None:
                out.append(t[5])
        elif k == "assert":
            out = [t[4]] + ([t[5]] if with_unwind and t[5] is not None else [])
        elif k == "yield":
            out = [t[1]]
        elif k == "falseedge":
            out = [t[1]]
        elif k == "asm":
            out = list(t[1])
        return out

    def _const_switch(self, bi, op):
        """value of a switch operand that is a literal constant (`if cfg!(debug_assertions)` etc.)"""
        if op[0] == "k":
            return op[1].get("bits")
        if op[1][1]:
            return None
        d = self.find_def_in_block(bi, op[1][0])
        if d is not None and d[0] == "use" and d[1][0] == "k":
            return d[1][1].get("bits")
        return None

    @property
    def succ(self):
        if self._succ is None:
            dead = {i for i, b in enumerate(self.blocks) if b["t"][0] == "unreachable"}
            self._succ = [[x for x in dict.fromkeys(self.term_succs(i)) if x not in dead] for i in range(len(self.blocks))]
            if self.is_coroutine:
                self._coroutine_edges()
        return self._succ

    def _coroutine_edges(self):
        """State-machine lowered coroutine: re-link `discriminant(*_1) = k; return` to the resume
        target k of the entry switch, and keep only the 0 (start) arm of the entry switch, so that
        the CFG is again the CFG of the source-level async body."""
        t = self.blocks[0]["t"]
        if t[0] != "switch":
            return
        arms = {int(v): b for v, b in t[2]}
        resume = {}
        for bi, b in enumerate(self.blocks):
            if b["t"][0] != "ret":
                continue
            for s in reversed(b["s"]):
                if s[0] == "D":
                    k = s[3]
                    if k in arms and k >= 3:
                        resume[bi] = arms[k]
                    break
        if 0 in arms:
            self._succ[0] = [arms[0]]
        for bi, tgt in resume.items():
            self._succ[bi] = [tgt]
        self.resume_edges = resume

    @property
    def pred(self):
        if self._pred is None:
            p = [[] for _ in self.blocks]
            for i, ss in enumerate(self.succ):
                for s in ss:
                    p[s].append(i)
            self._pred = p
        return self._pred

    def reachable_from(self, start, stop=()):
        key = (start, tuple(sorted(stop)))
        if key in self._reach_cache:
            return self._reach_cache[key]
        seen = set()
        st = [start]
        stop = set(stop)
        while st:
            b = st.pop()
            if b in seen or b in stop:
                continue
            seen.add(b)
            st.extend(self.succ[b])
        self._reach_cache[key] = seen
        return seen

    @property
    def live_blocks(self):
        return self.reachable_from(0)

    @property
    def dom(self):
        """dominator sets over normal (non-unwind) edges from bb0"""
        if self._dom is None:
            live = sorted(self.live_blocks)
            allb = set(live)
            dom = {b: set(allb) for b in live}
            dom[0] = {0}
            changed = True
            # reverse post-order would be faster; bodies are small
            while changed:
                changed = False
                for b in live:
                    if b == 0:
                        continue
                    ps = [p for p in self.pred[b] if p in allb]
                    if not ps:
                        continue
                    new = set.intersection(*(dom[p] for p in ps)) | {b}
                    if new != dom[b]:
                        dom[b] = new
                        changed = True
            self._dom = dom
        return self._dom

    def dominates(self, a, b):
        return b in self.dom and a in self.dom[b]

    def return_blocks(self):
        return [i for i in self.live_blocks if self.blocks[i]["t"][0] == "ret" and i not in getattr(self, "resume_edges", {})]

    def in_loop(self, b):
        """is block b on a CFG cycle"""
        for s in self.succ[b]:
            if b in self.reachable_from(s):
                return True
        return False

    def loop_blocks(self):
        return {b for b in self.live_blocks if self.in_loop(b)}

    def call_at(self, bb):
        return self._call_at.get(bb)

    # ---- switches ----------------------------------------------------------------------
    def switch_info(self, bi):
        """For a switch terminator: {'place':…, 'enum': ty or None, 'arms': {label: target}}"""
        t = self.blocks[bi]["t"]
        if t[0] != "switch":
            return None
        op = t[1]
        targets = {v: b for v, b in t[2]}
        other = t[3]
        info = {"op": op, "arms": {}, "enum": None, "place": None, "targets": targets, "otherwise": other}
        if op[0] in ("c", "m") and not op[1][1]:
            l = op[1][0]
            d = self.find_def_in_block(bi, l)
            if d is not None and d[0] == "discr":
                info["enum"] = d[2]
                info["place"] = d[1]
                for val, name in d[3]:
                    info["arms"][name] = targets.get(val, other)
                return info
            ty = self.locals[l]
            if ty == "bool":
                info["arms"]["false"] = targets.get("0", other)
                info["arms"]["true"] = other if "1" not in targets else targets["1"]
                info["bool_def"] = d
                return info
        for v, b in targets.items():
            info["arms"][v] = b
        info["arms"]["otherwise"] = other
        return info

    def find_def_in_block(self, bi, local):
        for s in reversed(self.blocks[bi]["s"]):
            if s[0] == "A" and s[1][0] == local and not s[1][1]:
                return s[2]
        return None

    # ---- defs / provenance -------------------------------------------------------------
    @property
    def defs(self):
        """local -> list of ('assign', bb, si, rvalue, proj) | ('call', Call, proj)"""
        if self._defs is None:
            d = defaultdict(list)
            for bi, b in enumerate(self.blocks):
                for si, s in enumerate(b["s"]):
                    if s[0] == "A":
                        d[s[1][0]].append(("assign", bi, si, s[2], tuple(s[1][1])))
                t = b["t"]
                if t[0] == "call":
                    c = self._call_at[bi]
                    d[c.dest[0]].append(("call", c, tuple(c.dest[1])))
            self._defs = d
        return self._defs

    def trace_place(self, place, depth=0, seen=None):
        """origins of the value stored in `place` (list of Origin); projections are accumulated
        innermost-first in Origin.proj"""
        local, proj = place[0], tuple(place[1])
        return self.trace_local(local, proj, depth, seen)

    def trace_operand(self, op, depth=0, seen=None):
        if op[0] == "k":
            c = op[1]
            if "static" in c:
                return [Origin("static", c["static"], ())]
            return [Origin("const", c, ())]
        return self.trace_place(op[1], depth, seen)

    def trace_local(self, local, proj=(), depth=0, seen=None):
        if seen is None:
            seen = set()
        key = (local, proj)
        if key in seen or depth > 40:
            return []
        seen.add(key)
        out = []
        if 1 <= local <= self.nargs:
            out.append(Origin("param", local, proj))
        defs = self.defs.get(local, [])
        for d in defs:
            if d[0] == "call":
                if d[2]:
                    continue  # writes into a projection of local
                out.append(Origin("call", d[1], proj))
                continue
            _, bi, si, rv, dproj = d
            if dproj:
                # assignment to a field of the local: relevant if reading the same field
                if proj[: len(dproj)] == dproj:
                    sub = proj[len(dproj):]
                    out.extend(self._trace_rvalue(rv, sub, depth + 1, seen, bi, si))
                continue
            out.extend(self._trace_rvalue(rv, proj, depth + 1, seen, bi, si))
        if not out and not (1 <= local <= self.nargs):
            out.append(Origin("local", local, proj))
        return out

    def _trace_rvalue(self, rv, proj, depth, seen, bi, si):
        k = rv[0]
        if k == "use":
            op = rv[1]
            if op[0] == "k":
                return self.trace_operand(op)
            return self.trace_local(op[1][0], tuple(op[1][1]) + proj, depth, seen)
        if k in ("ref", "ptr"):
            p = rv[2]
            # &place : reading through the ref (leading '*' in proj) cancels
            np = proj[1:] if proj and proj[0] == "*" else (("&",) + proj if proj else ())
            return self.trace_local(p[0], tuple(p[1]) + np, depth, seen)
        if k == "cfd":
            p = rv[1]
            return self.trace_local(p[0], tuple(p[1]) + proj, depth, seen)
        if k == "cast":
            op = rv[2]
            if op[0] == "k":
                return self.trace_operand(op)
            return self.trace_local(op[1][0], tuple(op[1][1]) + proj, depth, seen)
        if k == "agg":
            # reading a field of an aggregate we can see: follow the operand
            if proj and rv[1].get("k") in ("adt", "tuple", "closure", "coroutine"):
                pj = [p for p in proj if not p.startswith("@")]
                if pj and pj[0].startswith("."):
                    fname = pj[0][1:].split("|")[0]
                    names = rv[1].get("fields")
                    idx = None
                    if names and fname in names:
                        idx = names.index(fname)
                    elif fname.isdigit() and int(fname) < len(rv[2]):
                        idx = int(fname)
                    if idx is not None and idx < len(rv[2]):
                        rest = tuple(pj[1:])
                        op = rv[2][idx]
                        if op[0] == "k":
                            return self.trace_operand(op)
                        return self.trace_local(op[1][0], tuple(op[1][1]) + rest, depth, seen)
            return [Origin("agg", (bi, si, rv), proj)]
        return [Origin("op", (bi, si, rv), proj)]


def norm_ty(t):
    """strip lifetimes and references for loose comparison"""
    t = re.sub(r"'\w+\s*,?\s*", "", t)
    return t.replace("&mut ", "").replace("&", "").strip()


class Program:
    def __init__(self, facts_dir, apply_renames=True):
        self.dir = facts_dir
        self.fns = {}
        self.adts = {}
        self.impls = []
        self.traits = {}
        self.statics = {}
        self.crates = {}
        loaded = []
        for f in sorted(glob.glob(os.path.join(facts_dir, "*.json"))):
            with open(f) as fh:
                loaded.append(json.load(fh))
        # the facts are brought into the shape of the reviewed tree where the difference is a pure re-shaping (see canon.py):
        # renamed / moved functions, permuted parameters, new helpers spliced into their callers
        self.renamed, self.canon_notes, away = {}, [], {}
        if apply_renames:
            from . import canon
            self.canon_notes, self.renamed, away = canon.canonicalise(loaded, FINGERPRINTS)
        self.inlined_fns = {}
        self.renamed_fields = detect_field_renames([a for d in loaded for a in d["adts"]]) if apply_renames else {}
        if self.renamed_fields:
            for d in loaded:
                d["fns"] = _rename_fields(d["fns"], self.renamed_fields)
                for a in d["adts"]:
                    for v in a["variants"]:
                        for fd in v["fields"]:
                            fd["name"] = self.renamed_fields.get((a["id"], fd["name"]), fd["name"])
        for d in loaded:
            crate = d["crate"]
            self.crates[crate] = self.crates.get(crate, 0) + d["nfn"]
            for fd in d["fns"]:
                fn = Fn(fd, crate)
                if fn.id in self.fns:
                    n = 1
                    while "%s#%d" % (fn.id, n) in self.fns:
                        n += 1
                    fn.id = "%s#%d" % (fn.id, n)
                self.fns[fn.id] = fn
            for a in d["adts"]:
                a["crate"] = crate
                self.adts[a["id"]] = a
            for i in d["impls"]:
                i["crate"] = crate
                self.impls.append(i)
            for t in d["traits"]:
                t["crate"] = crate
                self.traits[t["id"]] = t
            for s in d["statics"]:
                s["crate"] = crate
                self.statics[s["id"]] = s
        for fid, (fd, crate) in away.items():
            self.inlined_fns[fid] = Fn(fd, crate)
        with open(os.path.join(facts_dir, "COMPLETE")) as fh:
            self.meta = json.load(fh)
        self._build_callgraph()

    # ---- lookups -----------------------------------------------------------------------
    def fn(self, fid):
        return self.fns.get(fid)

    def find_fns(self, pattern):
        rx = re.compile(pattern)
        return [f for f in self.fns.values() if rx.search(f.id)]

    def one_fn(self, pattern):
        r = self.find_fns(pattern)
        if len(r) != 1:
            raise AnchorError("anchor %r matched %d functions: %s" % (pattern, len(r), [f.id for f in r][:6]))
        return r[0]

    def closures_of(self, fn, recursive=True):
        out = []
        for g in self.fns.values():
            if g.is_closure and (g.parent == fn.id or (recursive and g.root == fn.id)):
                out.append(g)
        return out

    def family(self, fn):
        """fn plus its (nested) closures (for an inlined view: also the closures of the helpers spliced into it)"""
        roots = {fn.id} | set(getattr(fn, "inlined_from", ()))
        fam = [fn] + [g for g in self.fns.values() if g.is_closure and g.root in roots and g is not fn]
        # a closure turned into a named private function and handed over by name (`.filter(is_relevant)`): private functions of
        # the same crate that the family mentions as a VALUE and that nobody else mentions belong to it as well
        seen = {g.id for g in fam}
        for g in list(fam):
            for t in self.fn_items_in(g):
                h = self.fns.get(t)
                if h is None or t in seen or h.is_closure or h.crate != fn.crate or h.impl_trait or (h.vis or "") == "pub":
                    continue
                users = self.fn_item_users().get(t, set())
                callers = {(c.fn.root if c.fn.is_closure else c.fn.id) for c in self.call_sites.get(t, [])}
                if users and (users | callers) <= roots | {x.id for x in fam}:
                    fam.append(h)
                    seen.add(t)
        return fam

    def fn_items_in(self, g):
        out = set()

        def walk(x):
            if isinstance(x, dict):
                if isinstance(x.get("fn"), str):
                    out.add(x["fn"])
                for v in x.values():
                    walk(v)
            elif isinstance(x, list):
                for y in x:
                    walk(y)
        for b in g.blocks:
            walk(b["s"])
            if b["t"][0] == "call":
                walk(b["t"][2])
            else:
                walk(b["t"])
        return out

    def fn_item_users(self):
        if getattr(self, "_fn_item_users", None) is None:
            u = defaultdict(set)
            for g in self.fns.values():
                for t in self.fn_items_in(g):
                    u[t].add(g.root if g.is_closure else g.id)
            self._fn_item_users = u
        return self._fn_item_users

    def reach_from_callees(self, fid):
        """functions reachable from the callees of fid (fid itself is in the result iff it is recursive)"""
        out = set()
        st = list(self.callees.get(fid, ()))
        while st:
            x = st.pop()
            if x in out:
                continue
            out.add(x)
            st.extend(self.callees.get(x, ()))
        return out

    def inlined(self, fn, keep=()):
        return inlined(self, fn, keep=keep)

    def impls_of(self, trait):
        return [i for i in self.impls if i.get("trait") == trait]

    def impl_method(self, impl, name):
        for it in impl["items"]:
            if it["name"] == name:
                return self.fns.get(it["id"])
        return None

    # ---- call graph --------------------------------------------------------------------
    def _build_callgraph(self):
        self.trait_impl_methods = defaultdict(list)  # (trait, method) -> [fn ids]
        for i in self.impls:
            if "trait" in i:
                for it in i["items"]:
                    self.trait_impl_methods[(i["trait"], it["name"])].append(it["id"])
        for tid, t in self.traits.items():
            for m in t["methods"]:
                if m["default"] and m["id"] in self.fns:
                    self.trait_impl_methods[(tid, m["name"])].append(m["id"])
        self.callees = defaultdict(set)
        self.callers = defaultdict(set)
        self.call_sites = defaultdict(list)  # callee id -> [Call]
        self.unresolved = 0
        self.total_calls = 0
        for f in self.fns.values():
            for c in f.calls:
                self.total_calls += 1
                tgts = self.call_targets(c)
                for t in tgts:
                    self.callees[f.id].add(t)
                    self.callers[t].add(f.id)
                    self.call_sites[t].append(c)
            # closures created here may be invoked by whoever receives them; so may function items
            # passed as values (`.all(is_valid_meta_var_char)`)
            for b in f.blocks:
                for s in b["s"]:
                    if s[0] != "A":
                        continue
                    rv = s[2]
                    if rv[0] == "agg" and rv[1].get("k") in ("closure", "coroutine", "coroutine_closure"):
                        cid = rv[1]["def"]
                        if cid in self.fns:
                            self.callees[f.id].add(cid)
                            self.callers[cid].add(f.id)
                    ops = []
                    if rv[0] in ("use", "rep"):
                        ops = [rv[1]]
                    elif rv[0] == "cast":
                        ops = [rv[2]]
                    elif rv[0] == "agg":
                        ops = rv[2]
                    for o in ops:
                        self._fn_item_edge(f, o)
                t = b["t"]
                if t[0] == "call":
                    for o in t[2]:
                        self._fn_item_edge(f, o)

    def _fn_item_edge(self, f, o):
        if o[0] == "k":
            k = o[1]
            tgt = k.get("fn") or k.get("closure")
            if tgt and tgt in self.fns:
                self.callees[f.id].add(tgt)
                self.callers[tgt].add(f.id)

    def call_targets(self, c):
        """workspace functions a call may reach (resolved exactly, or all impls of a trait method)"""
        res = c.callee.get("res")
        kind = c.callee.get("res_kind")
        if res and kind != "virtual":
            if res in self.fns:
                return [res]
            # resolved to non-workspace code; but closures passed along are handled separately
            return []
        path = c.callee.get("path")
        if path is None:
            return []
        tr = c.callee.get("trait")
        if tr:
            self.unresolved += 1
            name = path.rsplit("::", 1)[-1]
            return list(self.trait_impl_methods.get((tr, name), []))
        if path in self.fns:
            return [path]
        return []

    def reach(self, roots):
        seen = set()
        st = [r for r in roots]
        while st:
            f = st.pop()
            if f in seen:
                continue
            seen.add(f)
            st.extend(self.callees.get(f, ()))
        return seen

    def who_calls(self, pattern):
        """call sites whose resolved-or-declared callee path matches regex"""
        rx = re.compile(pattern)
        out = []
        for f in self.fns.values():
            for c in f.calls:
                if rx.search(c.best) or (c.path and rx.search(c.path)):
                    out.append(c)
        return out

    def aggregates_of(self, adt_pattern):
        rx = re.compile(adt_pattern)
        out = []
        for f in self.fns.values():
            for bi, b in enumerate(f.blocks):
                for si, s in enumerate(b["s"]):
                    if s[0] == "A" and s[2][0] == "agg" and s[2][1].get("k") == "adt" and rx.search(s[2][1]["adt"]):
                        out.append((f, bi, si, s))
        return out

    def field_writes(self, owner_pattern, field):
        """statements / call-dests / &mut borrows that write ADT field `field`"""
        rx = re.compile(owner_pattern)
        out = []

        def hits(place):
            for p in place[1]:
                if p.startswith("."):
                    n, _, owner = p[1:].partition("|")
                    if n == field and rx.search(owner):
                        return True
            return False

        def last_is(place):
            ps = [p for p in place[1]]
            if not ps:
                return False
            p = ps[-1]
            if p.startswith("."):
                n, _, owner = p[1:].partition("|")
                return n == field and bool(rx.search(owner))
            return False

        for f in self.fns.values():
            for bi, b in enumerate(f.blocks):
                for si, s in enumerate(b["s"]):
                    if s[0] == "A":
                        if hits(s[1]):
                            out.append((f, bi, "assign", s[4] if len(s) > 4 else 0))
                        rv = s[2]
                        if rv[0] == "ref" and rv[1] == "mut" and hits(rv[2]):
                            out.append((f, bi, "mutborrow", s[3]))
                        if rv[0] == "ptr" and "Mut" in rv[1] and hits(rv[2]):
                            out.append((f, bi, "mutptr", s[3]))
                t = b["t"]
                if t[0] == "call" and hits(t[3]):
                    out.append((f, bi, "calldest", t[6]))
        return out


class AnchorError(Exception):
    pass


# ---- on-demand inlining of exclusive helpers ------------------------------------------------------------------------------
def _is_place(x):
    return isinstance(x, list) and len(x) == 2 and isinstance(x[0], int) and not isinstance(x[0], bool) and isinstance(x[1], list) and all(isinstance(p, str) for p in x[1])


def _remap(x, loff):
    """copy of a statement/operand/rvalue structure with every local shifted by loff"""
    if _is_place(x):
        return [x[0] + loff, list(x[1])]
    if isinstance(x, list):
        return [_remap(y, loff) for y in x]
    if isinstance(x, dict):
        return dict(x)
    return x


def _remap_term(t, loff, boff, ret_to):
    """copy of a terminator with locals shifted by loff and block targets by boff; `ret` becomes the pair (statements, terminator)"""
    k = t[0]
    b = lambda i: None if i is None else i + boff  # noqa: E731
    if k == "goto":
        return ["goto", b(t[1])]
    if k == "switch":
        return ["switch", _remap(t[1], loff), [[v, b(x)] for v, x in t[2]], b(t[3])] + list(t[4:])
    if k == "drop":
        return ["drop", _remap(t[1], loff), b(t[2]), b(t[3])] + list(t[4:])
    if k == "call":
        return ["call", t[1], _remap(t[2], loff), _remap(t[3], loff) if t[3] is not None else None, b(t[4]), b(t[5])] + list(t[6:])
    if k == "assert":
        return ["assert", t[1], t[2], t[3], b(t[4]), b(t[5]), _remap(t[6], loff)] + list(t[7:])
    if k in ("yield", "falseedge"):
        return [k, b(t[1])] + [_remap(y, loff) for y in t[2:]]
    if k == "asm":
        return ["asm", [b(i) for i in t[1]]] + list(t[2:])
    if k == "ret":
        return ret_to
    return list(t)


def exclusive_helpers(prog, fn):
    """workspace functions (same crate, not trait-impl methods, not closures, not recursive) all of whose call sites lie in `fn`,
    its closures or other exclusive helpers of `fn` — the pieces an `extract function` / `split function` refactoring produces"""
    fam = {g.id for g in prog.family(fn)}
    helpers = {}
    changed = True
    while changed:
        changed = False
        scope = fam | set(helpers)
        for gid in list(scope):
            g = prog.fns[gid]
            for c in g.calls:
                for t in prog.call_targets(c):
                    h = prog.fns.get(t)
                    if h is None or t in scope or h.is_closure or h.crate != fn.crate or h.impl_trait or t == fn.id:
                        continue
                    if (c.callee.get("res") or c.callee.get("path")) != t and len(prog.call_targets(c)) != 1:
                        continue
                    sites = prog.call_sites.get(t, [])
                    if sites and all((s.fn.id in scope or (s.fn.is_closure and s.fn.root in scope)) for s in sites) and not any(
                            (c2.callee.get("res") or c2.callee.get("path")) == t for g2 in prog.family(h) for c2 in g2.calls):
                        helpers[t] = h
                        changed = True
    return helpers


def inlined(prog, fn, max_rounds=4, keep=()):
    """A view of `fn` in which calls to its exclusive helpers (see exclusive_helpers) are replaced by the helper's body: a new Fn
    whose CFG contains the helpers' blocks.  Rules about a function's protocol (what happens on every path) stay valid when a
    maintainer extracts part of it into a private helper or splits it in two.  Returns `fn` itself when it has no such helper."""
    helpers = {k: h for k, h in exclusive_helpers(prog, fn).items() if h.name not in keep}
    if not helpers:
        return fn
    d = json.loads(json.dumps(fn.d))
    inl = []
    for _ in range(max_rounds):
        did = False
        for bi in range(len(d["blocks"])):
            t = d["blocks"][bi]["t"]
            if t[0] != "call":
                continue
            callee = t[1]
            tid = callee.get("res") or callee.get("path")
            h = helpers.get(tid)
            if h is None or len(t[2]) != h.nargs:
                continue
            from .canon import splice_call
            splice_call(d, bi, h.d)
            inl.append(h.id)
            did = True
        if not did:
            break
    view = Fn(d, fn.crate)
    view.inlined_from = list(dict.fromkeys(list(d.get("inlined_from", [])) + inl))
    view.original = fn
    return view


# ---- renamed functions ------------------------------------------------------------------------------------------------
FINGERPRINTS = os.path.join(os.path.dirname(os.path.dirname(os.path.abspath(__file__))), "tables", "fn_fingerprints.json")


def _owner_of_id(fid):
    depth = 0
    for i in range(len(fid) - 1, 0, -1):
        ch = fid[i]
        if ch == ">":
            depth += 1
        elif ch == "<":
            depth -= 1
        elif ch == ":" and fid[i - 1] == ":" and depth == 0:
            return fid[:i - 1]
    return ""


def fingerprint(f):
    d = f.d if hasattr(f, "d") else f
    return {"owner": _owner_of_id(d["id"]), "trait": d.get("impl_trait"), "file": d["file"], "sig": list(d["locals"][:d["nargs"] + 1]), "nargs": d["nargs"]}


def detect_renames(fn_dicts):
    """{new id: reviewed id} for functions whose reviewed name vanished while a function of the same owner, file and signature
    appeared under another name (1:1 only; ambiguous cases are left alone)"""
    if not os.path.exists(FINGERPRINTS):
        return {}
    with open(FINGERPRINTS) as fh:
        old = json.load(fh)["fns"]
    cur = {d["id"]: d for d in fn_dicts if d["kind"] not in ("Closure", "SyntheticCoroutineBody")}
    vanished = [i for i in old if i not in cur]
    appeared = [i for i in cur if i not in old]
    if not vanished or not appeared:
        return {}
    pairs = {}
    for a in appeared:
        fa = fingerprint(cur[a])
        c = [v for v in vanished if old[v]["owner"] == fa["owner"] and old[v].get("trait") == fa["trait"] and old[v]["sig"] == fa["sig"] and old[v]["file"] == fa["file"]]
        if len(c) == 1:
            pairs.setdefault(c[0], []).append(a)
    return {news[0]: v for v, news in pairs.items() if len(news) == 1}


def detect_field_renames(adt_dicts):
    """{(adt id, new field name): reviewed field name}: in an ADT whose variants kept their number of fields, a field whose
    reviewed name vanished while a field of the same type sits at the same position under a new name"""
    if not os.path.exists(FINGERPRINTS):
        return {}
    with open(FINGERPRINTS) as fh:
        old = json.load(fh).get("adts", {})
    out = {}
    for a in adt_dicts:
        o = old.get(a["id"])
        if not o or len(o) != len(a["variants"]):
            continue
        for (vname, ofields), v in zip(o, a["variants"]):
            if vname != v["name"] or len(ofields) != len(v["fields"]):
                continue
            onames = {f[0] for f in ofields}
            nnames = {f["name"] for f in v["fields"]}
            for (on, oty), nf in zip(ofields, v["fields"]):
                if on != nf["name"] and oty == nf["ty"] and on not in nnames and nf["name"] not in onames:
                    out[(a["id"], nf["name"])] = on
    return out


def _rename_fields(x, table):
    """rewrite field projections `.new|Owner`, aggregate field lists and ADT tables to the reviewed field names"""
    if isinstance(x, str):
        if x.startswith(".") and "|" in x:
            n, owner = x[1:].split("|", 1)
            r = table.get((owner, n))
            return ".%s|%s" % (r, owner) if r else x
        return x
    if isinstance(x, list):
        return [_rename_fields(y, table) for y in x]
    if isinstance(x, dict):
        d = {k: _rename_fields(v, table) for k, v in x.items()}
        if "adt" in d and isinstance(d.get("fields"), list):
            d["fields"] = [table.get((d["adt"], n), n) if isinstance(n, str) else n for n in d["fields"]]
        return d
    return x


def _rename_strings(x, table):
    """rewrite every string equal to a renamed id (or a closure path below it) inside a facts structure"""
    if isinstance(x, str):
        if x in table:
            return table[x]
        for new, oldid in table.items():
            if x.startswith(new + "::{closure"):
                return oldid + x[len(new):]
        return x
    if isinstance(x, list):
        return [_rename_strings(y, table) for y in x]
    if isinstance(x, dict):
        return {k: _rename_strings(v, table) for k, v in x.items()}
    return x
