"""Canonicalisation of freshly extracted facts against the reviewed tree (tables/fn_fingerprints.json).

The rules anchor functions by name, read parameters by position and look at what happens inside one function body.  Ordinary
maintenance changes none of the behaviour but all of those shapes: renaming or moving a private function, reordering its
parameters, extracting part of a body into a new private helper or accessor.  Before the rules run, the facts of the CURRENT
tree are therefore brought into the shape of the reviewed tree wherever that is a pure re-shaping:

  1. a function whose reviewed id vanished while one with the same signature appeared (same owner = rename, same name elsewhere in
     the crate = move) gets its reviewed id back;
  2. a function whose parameters were permuted (same names and types) gets the reviewed order back, at its definition and at all
     call sites;
  3. a NEW function (unknown to the reviewed tree) that is called directly is spliced into its callers and disappears.

Nothing here looks at what the code computes; the rules still analyse every statement of the current source — only where it
lives is normalised.  On the reviewed tree itself nothing vanished and nothing is new, so nothing is touched."""
import json
import re

CLOSURE_KINDS = ("Closure", "SyntheticCoroutineBody")


def owner_of_id(fid):
    depth = 0
    for i in range(len(fid) - 1, 0, -1):
        ch = fid[i]
        if ch == ">":
            depth += 1
        elif ch == "<":
            depth -= 1
        elif ch == ":" and fid[i - 1] == ":" and depth == 0:
            return fid[:i - 1]
    return ""


def short_name(fid):
    o = owner_of_id(fid)
    return fid[len(o) + 2:] if o else fid


def shape_of(d):
    """coarse shape of a body: terminator kinds and statement counts per block (a rename or move keeps it)"""
    return "|".join("%s%d" % (b["t"][0][:2], len(b["s"])) for b in d["blocks"])


def param_names(d):
    out = {}
    for n, p in d.get("names", []):
        if not p[1] and 1 <= p[0] <= d["nargs"] and p[0] not in out:
            out[p[0]] = n
    return [out.get(i, "_%d" % i) for i in range(1, d["nargs"] + 1)]


def fingerprint(d, crate=None):
    return {"owner": owner_of_id(d["id"]), "trait": d.get("impl_trait"), "file": d["file"], "sig": list(d["locals"][:d["nargs"] + 1]),
            "nargs": d["nargs"], "params": param_names(d), "shape": shape_of(d), "crate": crate}


# ---- generic structure walkers -------------------------------------------------------------------------------------------
def is_place(x):
    return isinstance(x, list) and len(x) == 2 and isinstance(x[0], int) and not isinstance(x[0], bool) and isinstance(x[1], list) and all(isinstance(p, str) for p in x[1])


def map_locals(x, fn):
    if is_place(x):
        return [fn(x[0]), list(x[1])]
    if isinstance(x, list):
        return [map_locals(y, fn) for y in x]
    if isinstance(x, dict):
        return dict(x)
    return x


def map_term(t, lf, bf):
    """copy of a terminator with locals mapped by lf and block targets by bf"""
    k = t[0]
    b = lambda i: None if i is None else bf(i)  # noqa: E731
    if k == "goto":
        return ["goto", b(t[1])]
    if k == "switch":
        return ["switch", map_locals(t[1], lf), [[v, b(x)] for v, x in t[2]], b(t[3])] + list(t[4:])
    if k == "drop":
        return ["drop", map_locals(t[1], lf), b(t[2]), b(t[3])] + list(t[4:])
    if k == "call":
        return ["call", t[1], map_locals(t[2], lf), map_locals(t[3], lf) if t[3] is not None else None, b(t[4]), b(t[5])] + list(t[6:])
    if k == "assert":
        return ["assert", t[1], t[2], t[3], b(t[4]), b(t[5]), map_locals(t[6], lf)] + list(t[7:])
    if k in ("yield", "falseedge"):
        return [k, b(t[1])] + [map_locals(y, lf) for y in t[2:]]
    if k == "asm":
        return ["asm", [b(i) for i in t[1]]] + list(t[2:])
    return list(t)


def rename_ids(x, table):
    if isinstance(x, str):
        if x in table:
            return table[x]
        for new, oldid in table.items():
            if x.startswith(new + "::{closure"):
                return oldid + x[len(new):]
        return x
    if isinstance(x, list):
        return [rename_ids(y, table) for y in x]
    if isinstance(x, dict):
        return {k: rename_ids(v, table) for k, v in x.items()}
    return x


# ---- 1. renames and moves ------------------------------------------------------------------------------------------------
def detect_renames(cur, old):
    """cur: {id: (fn dict, crate)} of non-closure functions; old: reviewed fingerprints.  Returns {current id: reviewed id}."""
    vanished = [i for i in old if i not in cur]
    appeared = [i for i in cur if i not in old]
    if not vanished or not appeared:
        return {}
    cands = []
    for a in appeared:
        d, crate = cur[a]
        fa = fingerprint(d, crate)
        for v in vanished:
            o = old[v]
            if o.get("trait") != fa["trait"] or o["sig"] != fa["sig"]:
                continue
            if o.get("crate") not in (None, crate) or v.split("::")[0].lstrip("<") != a.split("::")[0].lstrip("<"):
                continue
            same_owner = o["owner"] == fa["owner"]
            same_name = short_name(v) == short_name(a)
            if not (same_owner or same_name):
                continue
            score = 4 * same_owner + 2 * (o["file"] == fa["file"]) + 3 * same_name + 2 * (o.get("shape") == fa["shape"])
            cands.append((score, a, v))
    cands.sort(key=lambda x: (-x[0], x[1], x[2]))
    out, used_a, used_v = {}, set(), set()
    best = {}
    for score, a, v in cands:
        best.setdefault(a, []).append((score, v))
    for score, a, v in cands:
        if a in used_a or v in used_v:
            continue
        # ambiguous: another unused candidate for `a` with the same score
        ties = [v2 for s2, v2 in best[a] if s2 == score and v2 not in used_v]
        ties_a = [a2 for s2, a2, v2 in cands if v2 == v and s2 == score and a2 not in used_a]
        if len(ties) > 1 or len(ties_a) > 1:
            continue
        out[a] = v
        used_a.add(a)
        used_v.add(v)
    return out


# ---- 2. parameter order --------------------------------------------------------------------------------------------------
def detect_reorders(cur, old):
    """{id: perm} where perm[i] (0-based current position) = reviewed 0-based position of that parameter"""
    out = {}
    for i, (d, crate) in cur.items():
        o = old.get(i)
        if not o or o["nargs"] != d["nargs"] or d["nargs"] < 2 or "params" not in o:
            continue
        sig = list(d["locals"][:d["nargs"] + 1])
        if sig == o["sig"]:
            continue
        names = param_names(d)
        if len(set(names)) != len(names) or sorted(zip(names, sig[1:])) != sorted(zip(o["params"], o["sig"][1:])):
            continue
        perm = [o["params"].index(n) for n in names]
        if perm != list(range(len(perm))):
            out[i] = perm
    return out


def apply_reorder(d, perm):
    n = len(perm)
    lf = lambda l: perm[l - 1] + 1 if 1 <= l <= n else l  # noqa: E731
    newlocals = list(d["locals"])
    for i in range(n):
        newlocals[perm[i] + 1] = d["locals"][i + 1]
    d["locals"] = newlocals
    d["names"] = [[nm, [lf(p[0]), list(p[1])]] for nm, p in d["names"]]
    d["blocks"] = [{"s": [map_locals(s, lf) for s in b["s"]], "t": map_term(b["t"], lf, lambda x: x), "c": b.get("c", 0)} for b in d["blocks"]]


def reorder_call_args(d, reorders):
    for b in d["blocks"]:
        t = b["t"]
        if t[0] == "call":
            tid = t[1].get("res") or t[1].get("path")
            perm = reorders.get(tid)
            if perm and len(t[2]) == len(perm):
                args = [None] * len(perm)
                for i, a in enumerate(t[2]):
                    args[perm[i]] = a
                t[2] = args


# ---- 3. new helpers are spliced into their callers ---------------------------------------------------------------------------
_SPLICE_SEQ = [0]


def clone_closures(d, h, all_fns, new_fns):
    """the closures of helper h get a private copy for this splice site (id below d, parent = d or the copied enclosing closure): a helper
    spliced into two call sites must not share one closure body between them (its captures and its consumer differ per site).
    Returns {old closure id: new closure id}."""
    import copy
    table = {}
    kids = sorted(gid for gid in all_fns if gid.startswith(h["id"] + "::{closure"))
    if not kids:
        return table
    _SPLICE_SEQ[0] += 1
    for gid in kids:
        suffix = gid[len(h["id"]):]                      # "::{closure#0}" or "::{closure#0}::{closure#1}"
        table[gid] = d["id"] + suffix.replace("::{closure#", "::{closure#%d" % (1000 * _SPLICE_SEQ[0]), 1)
    for gid in kids:
        g = copy.deepcopy(all_fns[gid])
        g = rename_ids_exact(g, table)
        g["id"] = table[gid]
        if g.get("parent") == h["id"]:
            g["parent"] = d["id"]
        g["root"] = d.get("root") or d["id"]
        g["spliced_from"] = gid
        new_fns[g["id"]] = g
    return table


def rename_ids_exact(x, table):
    if isinstance(x, str):
        return table.get(x, x)
    if isinstance(x, list):
        return [rename_ids_exact(y, table) for y in x]
    if isinstance(x, dict):
        return {k: rename_ids_exact(v, table) for k, v in x.items()}
    return x


def splice_call(d, bi, h, all_fns=None, new_fns=None):
    """replace the call in block bi of fn dict d by the body of fn dict h"""
    ctable = clone_closures(d, h, all_fns, new_fns) if all_fns is not None else {}
    if ctable:
        h = dict(h)
        h["blocks"] = rename_ids_exact(h["blocks"], ctable)
    t = d["blocks"][bi]["t"]
    loff = len(d["locals"])
    boff = len(d["blocks"])
    d["locals"] = d["locals"] + list(h["locals"])
    d["names"] = d["names"] + [[n, [p[0] + loff, list(p[1])]] for n, p in h["names"]]
    line = t[6] if len(t) > 6 else 0
    blk = d["blocks"][bi]
    for i, a in enumerate(t[2]):
        blk["s"].append(["A", [loff + 1 + i, []], ["use", a], line, 0])
    dest, target = t[3], t[4]
    blk["t"] = ["goto", boff]
    # the helper's return place IS the call's destination when that is a plain local: every `_0 = …` of the helper then defines
    # the destination on its own path (no merging copy through a shared return slot, which would blur path-sensitive rules)
    direct = dest is not None and not dest[1] and d["locals"][dest[0]] == h["locals"][0]
    lf = (lambda l: dest[0] if l == 0 else l + loff) if direct else (lambda l: l + loff)  # noqa: E731
    bf = lambda b: b + boff  # noqa: E731
    for hb in h["blocks"]:
        nb = {"s": [map_locals(s, lf) for s in hb["s"]], "c": hb.get("c", 0)}
        if hb["t"][0] == "ret":
            if dest is not None and not direct:
                nb["s"].append(["A", dest, ["use", ["m", [loff, []]]], line, 0])
            nb["t"] = ["goto", target] if target is not None else ["unreachable"]
        else:
            nb["t"] = map_term(hb["t"], lf, bf)
        d["blocks"].append(nb)
    d.setdefault("inlined_from", [])
    if h["id"] not in d["inlined_from"]:
        d["inlined_from"].append(h["id"])
    for x in h.get("inlined_from", []):
        if x not in d["inlined_from"]:
            d["inlined_from"].append(x)


def direct_callee(t):
    return t[1].get("res") or t[1].get("path") if t[0] == "call" else None


def references_fn_item(x, fid):
    if isinstance(x, dict):
        return x.get("fn") == fid or any(references_fn_item(v, fid) for v in x.values())
    if isinstance(x, list):
        return any(references_fn_item(y, fid) for y in x)
    return False


def inline_new_functions(all_fns, old, notes, max_rounds=4):
    """all_fns: {id: fn dict}.  Returns the set of ids that were spliced away."""
    gone = set()
    added = {}
    inline_new_functions.added = added
    for _ in range(max_rounds):
        new = {}
        for fid, d in all_fns.items():
            if fid in old or fid in gone or d["kind"] in CLOSURE_KINDS or d.get("impl_trait") or d.get("trait_default"):
                continue
            if d["kind"] not in ("Fn", "AssocFn"):
                continue
            fam = [d] + [g for gid, g in all_fns.items() if gid.startswith(fid + "::{closure")]
            if any(direct_callee(b["t"]) == fid for g in fam for b in g["blocks"]):
                continue  # recursive (directly or through one of its own closures)
            new[fid] = d
        if not new:
            break
        did = False
        new_fns = {}
        for fid, d in list(all_fns.items()):
            if fid in gone:
                continue
            bi = 0
            while bi < len(d["blocks"]):
                t = d["blocks"][bi]["t"]
                tid = direct_callee(t)
                h = new.get(tid)
                if h is not None and h is not d and len(t[2]) == h["nargs"] and t[1].get("res_kind", "item") == "item":
                    splice_call(d, bi, h, all_fns, new_fns)
                    did = True
                bi += 1
        # a helper with no direct call and no value reference left disappears
        for fid, h in new.items():
            still = any(direct_callee(b["t"]) == fid for g, d in all_fns.items() if g not in gone and g != fid for b in d["blocks"])
            if still:
                continue
            as_value = any(references_fn_item([b["s"], b["t"]], fid) for g, d in all_fns.items() if g != fid for b in d["blocks"])
            called = any(fid in d.get("inlined_from", []) for d in all_fns.values())
            if called and not as_value:
                gone.add(fid)
                for gid in list(all_fns):
                    if gid.startswith(fid + "::{closure"):
                        gone.add(gid)           # its closures live on as per-site copies
                notes.append("new helper spliced into its callers: %s" % fid)
        all_fns.update(new_fns)
        added.update(new_fns)
        if not did:
            break
    return gone


# ---- driver --------------------------------------------------------------------------------------------------------------------
def canonicalise(loaded, fingerprints_path):
    """loaded: list of per-crate fact dicts (modified in place).  Returns (notes, renamed map, inlined-away fn dicts)."""
    import os
    notes = []
    if not os.path.exists(fingerprints_path):
        return notes, {}, {}
    with open(fingerprints_path) as fh:
        old = json.load(fh)["fns"]
    cur = {fd["id"]: (fd, d["crate"]) for d in loaded for fd in d["fns"] if fd["kind"] not in CLOSURE_KINDS}
    renamed = detect_renames(cur, old)
    if renamed:
        for d in loaded:
            for fd in d["fns"]:
                if fd["id"] in renamed and fd.get("name"):
                    fd["name"] = short_name(renamed[fd["id"]]).rsplit("::", 1)[-1]
            d["fns"] = rename_ids(d["fns"], renamed)
            d["impls"] = rename_ids(d["impls"], renamed)
        for a, v in sorted(renamed.items()):
            notes.append("renamed/moved function keeps its reviewed id: %s <- %s" % (v, a))
        cur = {fd["id"]: (fd, d["crate"]) for d in loaded for fd in d["fns"] if fd["kind"] not in CLOSURE_KINDS}
    reorders = detect_reorders(cur, old)
    if reorders:
        for i, perm in reorders.items():
            apply_reorder(cur[i][0], perm)
            notes.append("parameter order restored: %s %s" % (i, perm))
        for d in loaded:
            for fd in d["fns"]:
                reorder_call_args(fd, reorders)
    all_fns = {fd["id"]: fd for d in loaded for fd in d["fns"]}
    gone = inline_new_functions(all_fns, old, notes)
    away = {}
    added = getattr(inline_new_functions, "added", {})
    if added:
        crate_of = {fd["id"]: d for d in loaded for fd in d["fns"]}
        for nid, g in added.items():
            home = crate_of.get(g.get("spliced_from")) or crate_of.get(g.get("root"))
            if home is not None and all(fd["id"] != nid for fd in home["fns"]):
                home["fns"].append(g)
    if gone:
        for d in loaded:
            away.update({fd["id"]: (fd, d["crate"]) for fd in d["fns"] if fd["id"] in gone})
            d["fns"] = [fd for fd in d["fns"] if fd["id"] not in gone]
    return notes, renamed, away
